"""Numeric array grouped by two variables, one of them multiple-response: cells are scrambled.

The measures of a numeric-array cube are laid out (grouping dims ..., num-array subvariable),
e.g. tests/fixtures/numeric_arrays/num-arr-means-x-mr.json has mean.data of shape
(MR_SUBVAR, MR_CAT, NUM_ARR).  With a second grouping variable (CAT) the layout is
(CAT, MR_SUBVAR, MR_CAT, NUM_ARR) and the cube is 3-D: one CAT x MR table of means per
numeric-array subvariable.  Each cell must be the mean of that subvariable among the
respondents in the row category who selected the column item.
"""
import sys; src = "/repo/src"; sys.path.insert(0, src); import cr; cr.__path__ = [src + "/cr"]

import itertools
import numpy as np
from cr.cube.cube import Cube

rng = np.random.default_rng(3)
N = 60
CATS = [(1, "a", False), (2, "b", False), (-1, "No Data", True)]
MR_ITEMS = [("0001", "m_1", "M1"), ("0002", "m_2", "M2"), ("0003", "m_3", "M3")]
NA_SUBS = [("0001", "na_1", "NA 1"), ("0002", "na_2", "NA 2")]

cat = rng.integers(0, len(CATS), size=N)
mr = rng.integers(0, 3, size=(N, len(MR_ITEMS)))      # 0 selected, 1 other, 2 missing
x = rng.integers(1, 50, size=(N, len(NA_SUBS))).astype(float)
x[rng.random(x.shape) < 0.15] = np.nan                 # missing numeric answers

cat_dim = {
    "references": {"alias": "g", "name": "G"},
    "type": {"class": "categorical", "ordinal": False,
             "categories": [{"id": i, "name": n, "missing": m, "numeric_value": None} for i, n, m in CATS]},
}
mr_refs = {"alias": "m", "name": "M", "subreferences": [{"alias": a, "name": n} for _, a, n in MR_ITEMS]}
mr_subvar_dim = {
    "references": mr_refs, "derived": True,
    "type": {"class": "enum", "subtype": {"class": "variable"},
             "elements": [{"id": i + 1, "missing": False,
                           "value": {"id": sid, "derived": False, "references": {"alias": a, "name": n}}}
                          for i, (sid, a, n) in enumerate(MR_ITEMS)]},
}
mr_cat_dim = {
    "references": mr_refs, "derived": True,
    "type": {"class": "categorical", "ordinal": False, "subvariables": [s[0] for s in MR_ITEMS],
             "categories": [
                 {"id": 1, "name": "Selected", "selected": True, "missing": False, "numeric_value": 1},
                 {"id": 0, "name": "Other", "missing": False, "numeric_value": 0},
                 {"id": -1, "name": "No Data", "missing": True, "numeric_value": None}]},
}

group_shape = (len(CATS), len(MR_ITEMS), 3)
counts, means, valid = [], [], []
for r, c, s in itertools.product(*[range(n) for n in group_shape]):
    mask = (cat == r) & (mr[:, c] == s)
    counts.append(int(mask.sum()))
    for k in range(len(NA_SUBS)):                      # num-array subvariable is the innermost axis
        vals = x[mask, k]
        vals = vals[~np.isnan(vals)]
        valid.append(int(vals.size))
        means.append(float(vals.mean()) if vals.size else {"?": -8})

meta = {
    "derived": True,
    "references": {"alias": "na", "name": "NA", "subreferences": [{"alias": a, "name": n} for _, a, n in NA_SUBS]},
    "type": {"class": "numeric", "integer": False, "subvariables": [s[0] for s in NA_SUBS]},
}
response = {"result": {
    "dimensions": [cat_dim, mr_subvar_dim, mr_cat_dim],
    "counts": counts,
    "measures": {
        "count": {"data": counts, "n_missing": 0, "metadata": {}},
        "mean": {"data": means, "n_missing": 0, "metadata": meta},
        "valid_count_unweighted": {"data": valid, "n_missing": 0, "metadata": meta},
    },
    "n": N, "missing": 0,
}}

cube = Cube(response)
print("dimension types:", [dt.name for dt in cube.dimension_types])
partitions = cube.partitions
failed = len(partitions) != len(NA_SUBS)
valid_rows = [i for i, c in enumerate(CATS) if not c[2]]
for k, part in enumerate(partitions):
    exp_mean = np.full((len(valid_rows), len(MR_ITEMS)), np.nan)
    exp_n = np.zeros((len(valid_rows), len(MR_ITEMS)))
    for i, r in enumerate(valid_rows):
        for c in range(len(MR_ITEMS)):
            vals = x[(cat == r) & (mr[:, c] == 0), k]
            vals = vals[~np.isnan(vals)]
            exp_n[i, c] = vals.size
            if vals.size:
                exp_mean[i, c] = vals.mean()
    got_mean = np.asarray(part.means, dtype=float)
    got_n = np.asarray(part.unweighted_counts, dtype=float)
    good = (got_mean.shape == exp_mean.shape and np.allclose(got_mean, exp_mean, equal_nan=True)
            and got_n.shape == exp_n.shape and np.allclose(got_n, exp_n))
    print(f"-- table {k}: {part.table_name!r}  rows={[str(l) for l in part.row_labels]} cols={[str(l) for l in part.column_labels]}")
    print("   expected means      :", np.round(exp_mean, 3).tolist())
    print("   library  means      :", np.round(got_mean, 3).tolist())
    print("   expected valid count:", exp_n.tolist())
    print("   library  valid count:", got_n.tolist(), "ok" if good else "WRONG")
    failed |= not good

if failed:
    print("VIOLATION: cells of a numeric-array x CAT x MR cube do not carry the response's values")
sys.exit(1 if failed else 0)
