"""pairwise_indices / pairwise_indices_alt / pairwise_means_indices lose their row extent when no
column is displayed.

CAT (3) x CAT (2) slice, both columns hidden (the same happens when every column is pruned).
Every matrix output then has extent (3, 0) == slice.shape; `pairwise_indices`, documented as "has the
same shape as `.counts`", comes back with shape (0,).
"""
import sys

src = "/repo/src"
sys.path.insert(0, src)
import cr  # noqa: E402

cr.__path__ = [src + "/cr"]

import numpy as np  # noqa: E402

from cr.cube.cube import Cube  # noqa: E402

COUNTS = np.array([[10, 20], [30, 5], [7, 9]])


def dim(alias, n):
    return {
        "references": {"alias": alias, "name": alias.upper(), "description": alias},
        "type": {
            "class": "categorical",
            "ordinal": False,
            "categories": [
                {"id": i + 1, "name": "%s%d" % (alias, i + 1), "missing": False, "numeric_value": None}
                for i in range(n)
            ],
        },
    }


def response(means=False):
    measures = {
        "count": {"data": [float(x) for x in COUNTS.ravel()], "n_missing": 0, "metadata": {}}
    }
    if means:
        measures["mean"] = {"data": [1.0, 2.0, 3.0, 4.0, 5.0, 6.0], "n_missing": 0, "metadata": {}}
        measures["stddev"] = {"data": [1.0, 1.0, 1.0, 1.0, 1.0, 1.0], "n_missing": 0, "metadata": {}}
    return {
        "result": {
            "dimensions": [dim("r", 3), dim("c", 2)],
            "counts": COUNTS.ravel().tolist(),
            "measures": measures,
            "n": int(COUNTS.sum()),
            "missing": 0,
            "element": "crunch:cube",
        }
    }


transforms = {
    "columns_dimension": {"elements": {"1": {"hide": True}, "2": {"hide": True}}},
    "pairwise_indices": {"alpha": [0.05, 0.1]},
}

failed = False
for means in (False, True):
    slice_ = Cube(response(means), transforms=transforms).partitions[0]
    expected = (len(slice_.row_order()), len(slice_.column_order()))  # (3, 0)
    print("means cube:" if means else "counts cube:", "slice.shape =", slice_.shape,
          "counts.shape =", slice_.counts.shape, "expected extent =", expected)
    names = ["pairwise_indices", "pairwise_indices_alt"]
    if means:
        names += ["pairwise_means_indices", "pairwise_means_indices_alt"]
    for name in names:
        got = np.asarray(getattr(slice_, name)).shape
        ok = got == expected
        print("   %-28s shape %-8s %s" % (name, got, "" if ok else "<-- VIOLATION (expected %s)" % (expected,)))
        failed = failed or not ok

sys.exit(1 if failed else 0)
