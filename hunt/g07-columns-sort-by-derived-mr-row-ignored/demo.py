"""Sorting the COLUMNS by an opposing insertion is silently ignored when the rows
dimension is a multiple-response variable and the insertion is one of its derived
("x or y") items - although sorting the ROWS by the very same derived item works when
the MR variable is on the columns.

C10: exchanging the two dimensions (and mirroring the transforms) transposes the result.
C08: under a sort-by-value transform (by opposing insertion ...) the non-fixed base
     elements appear monotonically ordered by the value of the requested measure; rows
     and columns alike.  The key is resolvable (it names an existing item), so this is
     not the "unknown insertion id" fall-back case.

exit 1 when the library violates the property, 0 otherwise.
"""
import sys

src = "/repo/src"
sys.path.insert(0, src)
import cr  # noqa: E402

cr.__path__ = [src + "/cr"]

import copy  # noqa: E402
import numpy as np  # noqa: E402
from cr.cube.cube import Cube  # noqa: E402

# ---------------------------------------------------------------- the survey
CATS = [(1, "north"), (2, "south"), (3, "east")]
ITEMS = [  # element id, sub-variable id, alias, name, derived, anchor
    (1, "x or y", "x_or_y", "x or y", True, "top"),
    (2, "0001", "mr_x", "X", False, None),
    (3, "0002", "mr_y", "Y", False, None),
]
# respondent: (region id, x selected, y selected)
PEOPLE = (
    [(1, 1, 0)] * 1 + [(1, 0, 0)] * 5          # north: 1 says x-or-y
    + [(2, 1, 1)] * 2 + [(2, 0, 1)] * 3 + [(2, 0, 0)] * 1   # south: 5
    + [(3, 0, 1)] * 3 + [(3, 0, 0)] * 3        # east: 3
)


def mr_dims():
    subrefs = []
    elements = []
    for eid, svid, alias, name, derived, anchor in ITEMS:
        ref = {"alias": alias, "name": name}
        if derived:
            ref["anchor"] = anchor
        subrefs.append(ref)
        elements.append({"id": eid, "missing": False, "value": {"derived": derived, "id": svid, "references": ref}})
    refs = {
        "alias": "mr",
        "name": "MR",
        "subreferences": subrefs,
        "view": {
            "transform": {
                "insertions": [
                    {
                        "function": "any_non_missing_selected",
                        "name": "x or y",
                        "anchor": "top",
                        "id": 1,
                        "kwargs": {"variable": "mr", "subvariable_ids": ["mr_x", "mr_y"]},
                    }
                ]
            }
        },
    }
    return [
        {"references": refs, "type": {"class": "enum", "subtype": {"class": "variable"}, "elements": elements}},
        {
            "references": copy.deepcopy(refs),
            "type": {
                "class": "categorical",
                "subvariables": [i[1] for i in ITEMS],
                "categories": [
                    {"id": 1, "name": "Selected", "missing": False, "numeric_value": 1, "selected": True},
                    {"id": 0, "name": "Other", "missing": False, "numeric_value": 0},
                    {"id": -1, "name": "No Data", "missing": True, "numeric_value": None},
                ],
            },
        },
    ]


def cat_dim():
    return {
        "references": {"alias": "region", "name": "Region"},
        "type": {"class": "categorical", "categories": [{"id": i, "name": n, "missing": False, "numeric_value": None} for i, n in CATS]},
    }


def response(mr_first):
    counts = np.zeros((3, 3, 3), dtype=int)  # region x item x (sel, other, missing)
    for region, x, y in PEOPLE:
        for i, s in enumerate((x or y, x, y)):
            counts[region - 1, i, 0 if s else 1] += 1
    if mr_first:
        counts = counts.transpose(1, 2, 0)
        dims = mr_dims() + [cat_dim()]
    else:
        dims = [cat_dim()] + mr_dims()
    flat = counts.flatten().tolist()
    return {
        "result": {
            "dimensions": dims,
            "counts": flat,
            "measures": {"count": {"data": flat, "metadata": {"type": {"class": "numeric"}}, "n_missing": 0}},
            "n": len(PEOPLE),
            "missing": 0,
            "element": "crunch:cube",
        }
    }


# ---------------------------------------------------------------- first principles
# number of respondents per region who selected x or y, and the ascending region order
x_or_y = {rid: sum(1 for r, x, y in PEOPLE if r == rid and (x or y)) for rid, _ in CATS}
expected_regions = [name for rid, name in sorted(CATS, key=lambda c: x_or_y[c[0]])]
print("x-or-y count per region:", {n: x_or_y[i] for i, n in CATS}, "-> ascending:", expected_regions)

bad = False
for key in ("x_or_y", 1, "1"):  # alias / element id of the derived item
    order = {"type": "opposing_insertion", "insertion_id": key, "measure": "count_unweighted", "direction": "ascending"}
    # regions on the rows, MR on the columns: sort the rows
    a = Cube(response(mr_first=False), transforms={"rows_dimension": {"order": dict(order)}}).partitions[0]
    # the transposed analysis: MR on the rows, regions on the columns: sort the columns
    b = Cube(response(mr_first=True), transforms={"columns_dimension": {"order": dict(order)}}).partitions[0]
    rows_sorted = a.row_labels.tolist()
    cols_sorted = b.column_labels.tolist()
    ok_a = rows_sorted == expected_regions
    ok_b = cols_sorted == expected_regions
    transposed = np.array_equal(a.counts.T, b.counts)
    print("insertion_id=%-10r CAT x MR rows: %s %s | MR x CAT columns: %s %s | b == a.T: %s" % (
        key, rows_sorted, "ok" if ok_a else "WRONG", cols_sorted, "ok" if ok_b else "WRONG (payload order)", transposed))
    bad = bad or not (ok_a and ok_b and transposed)

# the same key is accepted for columns under "opposing_element" - so it is resolvable
b2 = Cube(
    response(mr_first=True),
    transforms={"columns_dimension": {"order": {"type": "opposing_element", "element_id": "x_or_y", "measure": "count_unweighted", "direction": "ascending"}}},
).partitions[0]
print("(columns by opposing_element 'x_or_y':", b2.column_labels.tolist(), ")")

sys.exit(1 if bad else 0)
