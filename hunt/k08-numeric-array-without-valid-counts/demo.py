"""A numeric-array response that carries a mean (or sum ...) measure but no valid-count measure
cannot be read at all: Cube.counts / Cube.unweighted_counts and EVERY property of its partition
(.means, .row_labels, .counts ...) raise TypeError("'NoneType' object is not subscriptable").

C01: "... mean, sum ... measures report exactly the value the response carries for that cell",
domain "numeric-array ..., weighted or not, with valid-count measures or not".

exit 1 = library violates the property, 0 = ok.
"""
import os
import sys

src = os.environ.get("CRCUBE_SRC", "/repo/src")
sys.path.insert(0, src)
import cr  # noqa: E402

cr.__path__ = [src + "/cr"]

import numpy as np  # noqa: E402

from cr.cube.cube import Cube  # noqa: E402

# ---- respondents: (gender, rating of movie 1, rating of movie 2); None = not rated
RESPONDENTS = [
    ("M", 4.0, 2.0), ("M", 5.0, None), ("F", 1.0, 3.0), ("F", 2.0, 5.0), ("M", None, 1.0),
]
GENDERS = ["M", "F"]


def mean(xs):
    xs = [x for x in xs if x is not None]
    return sum(xs) / len(xs) if xs else None


def measure(data):
    return {
        "data": [{"?": -8} if x is None else x for x in data],
        "n_missing": 0,
        "metadata": {
            "derived": True,
            "references": {
                "alias": "movies", "name": "Movies", "uniform_basis": False,
                "subreferences": [{"alias": "m1", "name": "Movie 1"},
                                  {"alias": "m2", "name": "Movie 2"}],
            },
            "type": {"class": "numeric", "integer": False, "missing_rules": {},
                     "missing_reasons": {"No Data": -1, "NaN": -8},
                     "subvariables": ["S1", "S2"]},
        },
    }


GENDER_DIM = {
    "derived": False,
    "references": {"alias": "gender", "name": "Gender"},
    "type": {"class": "categorical", "ordinal": False, "categories": [
        {"id": 1, "name": "Male", "missing": False, "numeric_value": None},
        {"id": 2, "name": "Female", "missing": False, "numeric_value": None},
        {"id": -1, "name": "No Data", "missing": True, "numeric_value": None}]},
}

# --- numeric array, no grouping: same shape as fixtures/numeric_arrays/num-arr-means-no-grouping
# --- minus its valid_count_unweighted measure
exp_1d = [mean([r[1] for r in RESPONDENTS]), mean([r[2] for r in RESPONDENTS])]
resp_1d = {"result": {
    "dimensions": [], "counts": [len(RESPONDENTS)], "n": len(RESPONDENTS), "missing": 0,
    "measures": {"mean": measure(exp_1d)}, "element": "crunch:cube"}}

# --- numeric array grouped by gender: data is (gender x subvariable), row-major
by_gender = [[mean([r[k] for r in RESPONDENTS if r[0] == g]) for k in (1, 2)] for g in GENDERS]
data_2d = [x for row in by_gender + [[None, None]] for x in row]
resp_2d = {"result": {
    "dimensions": [GENDER_DIM],
    "counts": [sum(r[0] == g for r in RESPONDENTS) for g in GENDERS] + [0],
    "n": len(RESPONDENTS), "missing": 0,
    "measures": {"mean": measure(data_2d)}, "element": "crunch:cube"}}
exp_2d = np.array(by_gender, dtype=float).T  # rows = movies, columns = genders

bad = False
for name, resp, expected in (("no grouping", resp_1d, exp_1d), ("by gender", resp_2d, exp_2d)):
    cube = Cube(resp)
    print("---", name, [t.name for t in cube.dimension_types])
    print("  Cube.means            :", np.asarray(cube.means).tolist())
    for label, getter in (
        ("Cube.unweighted_counts", lambda: cube.unweighted_counts),
        ("partition.means       ", lambda: cube.partitions[0].means),
        ("partition.row_labels  ", lambda: cube.partitions[0].row_labels),
    ):
        try:
            value = getter()
            print("  %s:" % label, np.asarray(value).tolist())
        except Exception as e:  # noqa
            print("  %s: raises %s: %s" % (label, type(e).__name__, e))
            bad = True
    try:
        got = np.asarray(cube.partitions[0].means, dtype=float)
        if not np.allclose(got, np.asarray(expected, dtype=float), equal_nan=True):
            print("  partition.means differs from", np.asarray(expected).tolist())
            bad = True
    except Exception:
        bad = True
    print("  expected means        :", np.asarray(expected).tolist())
sys.exit(1 if bad else 0)
