"""Single-column-filter augmentation misplaces counts when the filter cube lists its missing
element before the valid ones (the layout of tests/fixtures/num-binned.json).

Multitable: rows = a binned numeric variable, column 1 = a single-column filter. The filter
cube only carries the bins that occur among the filtered respondents, so CubeSet "augments" it
to the rows of the summary cube. The count of every bin of the augmented strand must be the
(weighted) number of filtered respondents in that bin; the respondents with a missing answer
must not show up in any bin.

exit 1 = library violates the property, 0 = ok.
"""
import os
import sys

src = os.environ.get("CRCUBE_SRC", "/repo/src")
sys.path.insert(0, src)
import cr  # noqa: E402

cr.__path__ = [src + "/cr"]

import numpy as np  # noqa: E402

from cr.cube.cube import CubeSet  # noqa: E402

BINS = [[0, 10], [10, 20], [20, 30]]
# (bin index or None for a missing answer, passes the column filter?, weight)
RESPONDENTS = [
    (0, True, 1.5), (0, True, 0.5), (0, False, 1.0),
    (1, False, 2.0), (1, False, 1.0),
    (2, True, 1.0), (2, True, 2.0), (2, True, 0.25),
    (None, True, 4.0), (None, False, 1.0),
]


def cube_response(filtered):
    rows = [r for r in RESPONDENTS if r[1] or not filtered]
    # --- missing element first with id -1, bins numbered from 1: exactly the element layout
    # --- of tests/fixtures/num-binned.json
    elements = [{"id": -1, "value": {"?": -1}, "missing": True}]
    counts = [sum(1 for r in rows if r[0] is None)]
    wcounts = [sum(r[2] for r in rows if r[0] is None)]
    for i, b in enumerate(BINS):
        n = sum(1 for r in rows if r[0] == i)
        if filtered and n == 0:
            continue  # a filtered cube only has the values that occur
        elements.append({"id": len(elements), "value": b, "missing": False})
        counts.append(n)
        wcounts.append(sum(r[2] for r in rows if r[0] == i))
    result = {
        "dimensions": [
            {
                "derived": True,
                "references": {"alias": "age", "name": "Age"},
                "type": {
                    "class": "enum",
                    "elements": elements,
                    "subtype": {"class": "numeric", "missing_rules": {},
                                "missing_reasons": {"No Data": -1}},
                },
            }
        ],
        "counts": counts,
        "measures": {"count": {"data": wcounts, "n_missing": counts[0], "metadata": {}}},
        "n": len(rows),
        "missing": counts[0],
        "element": "crunch:cube",
    }
    if filtered:
        result["is_single_col_cube"] = True
    return {"result": result}


summary, filt = cube_response(False), cube_response(True)
cube_set = CubeSet([summary, filt], [{}, {}], None, 0)
rows_strand, filter_strand = cube_set.partition_sets[0]

# ---- first principles ---------------------------------------------------------------
exp_u = [sum(1 for r in RESPONDENTS if r[1] and r[0] == i) for i in range(len(BINS))]
exp_w = [sum(r[2] for r in RESPONDENTS if r[1] and r[0] == i) for i in range(len(BINS))]

print("row labels                 :", list(rows_strand.row_labels))
print("filter cube payload        :", [e["value"] for e in filt["result"]["dimensions"][0]["type"]["elements"]],
      filt["result"]["counts"])
print("unweighted counts  expected:", exp_u, " got:", filter_strand.unweighted_counts.tolist())
print("weighted counts    expected:", exp_w, " got:", filter_strand.counts.tolist())

ok = (
    list(filter_strand.row_labels) == list(rows_strand.row_labels)
    and np.allclose(filter_strand.unweighted_counts, exp_u)
    and np.allclose(filter_strand.counts, exp_w)
)
if not ok:
    print("VIOLATION: the missing respondents are counted in the first bin and every bin "
          "count is shifted by one element")
sys.exit(0 if ok else 1)
