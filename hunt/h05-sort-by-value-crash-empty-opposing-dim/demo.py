"""C08: sort-by-value on a table one of whose dimensions has no valid element crashes with IndexError
(instead of returning the trivially sorted order), because the base / proportion measure objects index
row 0 (or column 0) of an empty block while building their subtotal "intersections" block.
"""
import sys; src = "/repo/src"; sys.path.insert(0, src); import cr; cr.__path__ = [src + "/cr"]
import traceback
import warnings
import numpy as np
from cr.cube.cube import Cube

warnings.filterwarnings("ignore")


def cat_dim(alias, cats, insertions=()):
    return {
        "derived": False,
        "references": {"alias": alias, "name": alias, "view": {"transform": {"insertions": list(insertions)}}},
        "type": {"categories": [{"id": i, "missing": m, "name": n, "numeric_value": None} for i, n, m in cats],
                 "class": "categorical", "ordinal": False},
    }


def response(dims, counts):
    flat = np.asarray(counts).flatten().tolist()
    n = int(sum(flat))
    return {
        "query": {"dimensions": [], "measures": {"count": {"args": [], "function": "cube_count"}}, "weight": None},
        "result": {
            "counts": flat, "dimensions": dims, "element": "crunch:cube",
            "measures": {"count": {"data": flat, "metadata": {"derived": True, "references": {},
                "type": {"class": "numeric", "integer": True, "missing_reasons": {"No Data": -1}, "missing_rules": {}}},
                "n_missing": 0}},
            "missing": n, "n": n,
            "filtered": {"unweighted_n": n, "weighted_n": n}, "unfiltered": {"unweighted_n": n, "weighted_n": n},
        },
    }


ALL_MISSING = [(-1, "No Data", True), (8, "Skipped", True)]
VALID = [(1, "a", False), (2, "b", False), (3, "c", False)]
failures = []


def check(name, resp, transforms, axis, expected_set):
    """The order must be produced without raising and must show exactly `expected_set`."""
    # control: the same table in anchored payload order (no sort) works
    control = Cube(resp, transforms={k: {kk: vv for kk, vv in v.items() if kk != "order"} for k, v in transforms.items()}).partitions[0]
    ctrl = [int(i) for i in (control.row_order() if axis == 0 else control.column_order())]
    try:
        part = Cube(resp, transforms=transforms).partitions[0]
        got = [int(i) for i in (part.row_order() if axis == 0 else part.column_order())]
    except Exception as e:
        print("%s: payload order is %s but the sorted order raises %r" % (name, ctrl, e))
        print("   ", traceback.format_exc().strip().splitlines()[-3].strip())
        failures.append(name)
        return
    print("%s: order %s" % (name, got))
    if sorted(got) != sorted(expected_set):
        failures.append(name)


# A. no valid row at all (every row category is missing), no insertion anywhere; sort the (zero) rows by
#    the column-percent of column 1, and sort the columns by a row's value -> expected: [] and any order
#    of the 3 columns (all values NaN => payload order [0, 1, 2]).
resp_a = response([cat_dim("R", ALL_MISSING), cat_dim("C", VALID)], [[1, 2, 3], [4, 5, 6]])
check("A rows  (0 valid rows, opposing_element col_percent)", resp_a,
      {"rows_dimension": {"order": {"type": "opposing_element", "element_id": 1, "measure": "col_percent"}}}, 0, [])
check("A rows  (0 valid rows, opposing_element table_percent)", resp_a,
      {"rows_dimension": {"order": {"type": "opposing_element", "element_id": 1, "measure": "table_percent"}}}, 0, [])

# B. no valid column, rows have one subtotal; sort rows by the unweighted-base marginal (all 0 => ties)
row_ins = [{"function": "subtotal", "name": "a+b", "anchor": 2, "args": [1, 2], "id": 1}]
resp_b = response([cat_dim("R", VALID, row_ins), cat_dim("C", ALL_MISSING)], [[1, 2], [3, 4], [5, 6]])
check("B rows  (0 valid columns, marginal unweighted_base)", resp_b,
      {"rows_dimension": {"order": {"type": "marginal", "marginal": "unweighted_base"}}}, 0, [-1, 0, 1, 2])
check("B rows  (0 valid columns, marginal weighted_base)", resp_b,
      {"rows_dimension": {"order": {"type": "marginal", "marginal": "weighted_base"}}}, 0, [-1, 0, 1, 2])

if failures:
    print("\nDEFECT: sort-by-value raised / lost elements for:", failures)
    sys.exit(1)
print("ok")
sys.exit(0)
