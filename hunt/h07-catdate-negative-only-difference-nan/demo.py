"""Row/column-proportion variance, std-err and MoE of a subtotal DIFFERENCE on a categorical-date
dimension are NaN when the difference is left with subtrahends only (its addend wave is
flagged missing), although base and proportion are well defined - and although the very same
subtotal gets proper numbers in its intersection cells and on any non-date dimension.

Input: shipped fixture cat-x-cat-date.json (CAT x CAT_DATE, waves 2019-01 .. 2019-10) where the
wave "2019-04" (id 2) has aged out and is flagged missing (cf. fixture cat-date.json, where the
older waves are flagged missing in exactly this way), with the wave difference
"2019-04 minus 2019-01" (positive [2], negative [1]) on the columns and a "Top 2" subtotal on
the rows. With its addend gone the insertion is the difference "0 - 2019-01".

First principles: among the respondents of a row (its row base) the indicator is -1 for the
members of wave 2019-01 and 0 otherwise, so with q = n(row, 2019-01) / n(row):
    proportion = -q,  variance = q - q**2,  std-err = sqrt(variance / n(row)),  MoE = 1.959964 * se
"""
import sys; src = "/repo/src"; sys.path.insert(0, src); import cr; cr.__path__ = [src + "/cr"]
import copy, json, warnings
import numpy as np
from cr.cube.cube import Cube

warnings.filterwarnings("ignore")
FIX = "/repo/tests/fixtures/"
Z_975 = 1.959964

with open(FIX + "cat-x-cat-date.json") as f:
    resp = copy.deepcopy(json.load(f))
res = resp["result"]
col_cats = res["dimensions"][1]["type"]["categories"]
row_cats = res["dimensions"][0]["type"]["categories"]
next(c for c in col_cats if c["id"] == 2)["missing"] = True  # wave 2019-04 aged out

transforms = {
    "rows_dimension": {"insertions": [
        {"function": "subtotal", "name": "Top 2", "anchor": "top", "args": [1, 2], "id": 1}]},
    "columns_dimension": {"insertions": [
        {"function": "subtotal", "name": "2019-04 minus 2019-01", "anchor": "bottom",
         "args": [2], "kwargs": {"positive": [2], "negative": [1]}, "id": 1}]},
}

# --- first principles from the raw counts of the response -------------------------------
raw = np.array(res["counts"], dtype=float).reshape(len(row_cats), len(col_cats))
vr = [k for k, c in enumerate(row_cats) if not c.get("missing")]
vc = [k for k, c in enumerate(col_cats) if not c.get("missing")]
counts = raw[np.ix_(vr, vc)]                      # valid rows x valid waves (2019-04 dropped)
wave1 = [col_cats[k]["id"] for k in vc].index(1)  # column offset of wave 2019-01
row_ids = [row_cats[k]["id"] for k in vr]
row_specs = [[row_ids.index(1), row_ids.index(2)]] + [[i] for i in range(len(vr))]  # Top 2 first
exp_var, exp_se = [], []
for rows in row_specs:
    n_row = counts[rows, :].sum()
    q = counts[rows, wave1].sum() / n_row
    exp_var.append(q - q * q)
    exp_se.append(np.sqrt((q - q * q) / n_row))
exp_var, exp_se = np.array(exp_var), np.array(exp_se)

s = Cube(resp, transforms=transforms).partitions[0]
assert list(s.column_labels)[-1] == "2019-04 minus 2019-01" and list(s.row_labels)[0] == "Top 2"
print("row labels:", list(s.row_labels))
print("row proportions of the difference column :", s.row_proportions[:, -1])
n_bad = 0
for name, got, exp in (
    ("row_proportion_variances", s.row_proportion_variances[:, -1], exp_var),
    ("row_std_dev", s.row_std_dev[:, -1], np.sqrt(exp_var)),
    ("row_std_err", s.row_std_err[:, -1], exp_se),
    ("row_proportions_moe", s.row_proportions_moe[:, -1], Z_975 * exp_se),
):
    got = np.asarray(got, float)
    bad = ~np.isclose(got, exp, rtol=1e-6, atol=1e-9, equal_nan=True)
    print(f"{name}:\n   expected {exp}\n   got      {got}")
    n_bad += int(bad.sum())
print("violations:", n_bad)
sys.exit(1 if n_bad else 0)
