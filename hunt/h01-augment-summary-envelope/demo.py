"""Single-column-filter augmentation crashes when the responses arrive as shoji envelopes
({"element": "shoji:view", "value": {...}}) or as JSON text - the two other forms `Cube`
accepts (most files in tests/fixtures are envelopes).

Same tabbook-style CubeSet in three equivalent forms; the filter column must line up with the
summary rows and report the number of filtered respondents per row in every form.
"""
import sys; src = "/repo/src"; sys.path.insert(0, src); import cr; cr.__path__ = [src + "/cr"]

import copy
import json
import numpy as np
from cr.cube.cube import CubeSet

# ---- respondent-level data: (text answer, passes the column filter?) ----
respondents = [("A", True), ("A", False), ("B", False), ("C", True), ("C", True), ("C", False)]


def text_dimension(values):
    elements = [{"id": i, "missing": False, "value": v} for i, v in enumerate(values)]
    elements.append({"id": -1, "missing": True, "value": {"?": -1}})
    return {
        "references": {"alias": "txt", "name": "Txt"},
        "type": {
            "class": "enum",
            "elements": elements,
            "subtype": {"class": "text", "missing_reasons": {"No Data": -1}, "missing_rules": {}},
        },
    }


def univariate_response(rows, single_col):
    values = sorted({v for v, _ in rows})
    counts = [sum(1 for v, _ in rows if v == val) for val in values] + [0]
    result = {
        "dimensions": [text_dimension(values)],
        "counts": counts,
        "measures": {"count": {"data": list(counts), "n_missing": 0, "metadata": {}}},
        "n": len(rows),
        "missing": 0,
    }
    if single_col:
        result["is_single_col_cube"] = True
    return {"result": result}


def responses():
    return [
        univariate_response(respondents, False),
        univariate_response([r for r in respondents if r[1]], True),
    ]


forms = {
    "bare dict": lambda r: r,
    "shoji envelope": lambda r: {"element": "shoji:view", "self": "https://x/cube/", "value": r},
    "JSON text": lambda r: json.dumps(r),
}

expected_labels = ["A", "B", "C"]
expected_counts = [sum(1 for v, f in respondents if f and v == lab) for lab in expected_labels]
print("expected filter-column counts:", dict(zip(expected_labels, expected_counts)))

failed = False
for name, wrap in forms.items():
    cube_responses = [wrap(copy.deepcopy(r)) for r in responses()]
    try:
        strand = CubeSet(cube_responses, [{}, {}], None, 0).partition_sets[0][1]
        labels = [str(x) for x in strand.row_labels]
        counts = np.asarray(strand.counts).tolist()
        good = labels == expected_labels and np.allclose(counts, expected_counts)
        print(f"{name:15s}: {dict(zip(labels, counts))}  {'ok' if good else 'WRONG'}")
        failed |= not good
    except Exception as e:  # noqa
        print(f"{name:15s}: raised {type(e).__name__}: {e}")
        failed = True

if failed:
    print("VIOLATION: the same multi-cube set cannot be partitioned in every accepted input form")
sys.exit(1 if failed else 0)
