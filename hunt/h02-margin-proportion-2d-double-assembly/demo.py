"""rows_margin_proportion / columns_margin_proportion (2-D form, opposing dimension is an
array/MR) are assembled twice: any order/hide/prune/insertion transform corrupts them.

Input: the library's own CAT x MR fixture (fruit x pets), plus ordinary transforms.
Expected (first principles): rows_margin_proportion[r, c] =
    (# respondents in row r with a valid answer on MR item c) /
    (# respondents with a valid row answer and a valid answer on MR item c)
laid out in the same row/column order as every other measure (e.g. `.counts`).
"""
import sys; src = "/repo/src"; sys.path.insert(0, src); import cr; cr.__path__ = [src + "/cr"]
import json
import numpy as np
from cr.cube.cube import Cube

resp = json.load(open("/repo/tests/fixtures/cat-x-mr.json"))
res = resp["result"]
# raw counts: (fruit categories incl. missing, pets items, [selected, other, missing])
raw = np.array(res["counts"], dtype=float).reshape(3, 3, 3)
valid_rows = [0, 1]  # rambutan, satsuma ("No Data" is missing)
row_base = raw[valid_rows][:, :, :2].sum(axis=2)  # (2 rows, 3 items): row member & item valid
table_base = row_base.sum(axis=0)  # (3 items,): valid row & item valid
margin_prop = row_base / table_base  # payload order: rows (rambutan, satsuma) x (dog, cat, wombat)

failed = False


def report(title, fn, expected):
    global failed
    try:
        got = np.asarray(fn())
    except Exception as e:  # noqa
        print(f"{title}: library raised {type(e).__name__}: {e}")
        print(f"    expected\n{expected}")
        failed = True
        return
    if got.shape != expected.shape or not np.allclose(got, expected, equal_nan=True):
        print(f"{title}: MISMATCH\n  library:\n{got}\n  expected:\n{expected}")
        failed = True
    else:
        print(f"{title}: ok")


# --- 0. no transforms: fine -------------------------------------------------------
sl = Cube(resp).partitions[0]
report("no transforms", lambda: sl.rows_margin_proportion, margin_prop)

# --- 1. explicit column order (wombat, dog, cat) ------------------------------------
tr = {"columns_dimension": {"order": {"type": "explicit", "element_ids": [3, 1, 2]}}}
sl = Cube(resp, transforms=tr).partitions[0]
assert list(sl.column_labels) == ["wombat", "dog", "cat"]
report("explicit column order", lambda: sl.rows_margin_proportion, margin_prop[:, [2, 0, 1]])
# sanity: the 2-D rows_margin and the table bases themselves ARE correctly aligned
assert np.allclose(sl.rows_margin, row_base[:, [2, 0, 1]])
assert np.allclose(sl.table_weighted_bases, np.broadcast_to(table_base[[2, 0, 1]], (2, 3)))

# --- 2. one hidden row ---------------------------------------------------------------
tr = {"rows_dimension": {"elements": {"1": {"hide": True}}}}
sl = Cube(resp, transforms=tr).partitions[0]
assert list(sl.row_labels) == ["satsuma"]
report("hidden row", lambda: sl.rows_margin_proportion, margin_prop[[1], :])

# --- 3. a row subtotal (rambutan + satsuma) anchored at the top ----------------------
tr = {"rows_dimension": {"insertions": [
    {"function": "subtotal", "name": "both", "anchor": "top", "args": [1, 2], "id": 1}]}}
sl = Cube(resp, transforms=tr).partitions[0]
assert list(sl.row_labels) == ["both", "rambutan", "satsuma"]
exp = np.vstack([margin_prop.sum(axis=0), margin_prop])  # subtotal row base = sum = table base -> 1.0
report("row subtotal", lambda: sl.rows_margin_proportion, exp)

# --- 4. same root cause in the column direction (MR x CAT) --------------------------
resp2 = json.load(open("/repo/tests/fixtures/mr-x-cat.json"))
res2 = resp2["result"]
shape = []
for d in res2["dimensions"]:
    t = d["type"]
    shape.append(len(t.get("categories", t.get("elements"))))
raw2 = np.array(res2["counts"], dtype=float).reshape(shape)  # (items, sel/other/missing, cats)
col_missing = [c.get("missing", False) for c in res2["dimensions"][2]["type"]["categories"]]
valid_cols = [i for i, m in enumerate(col_missing) if not m]
col_base = raw2[:, :2, :][:, :, valid_cols].sum(axis=1)  # (items, valid cats)
tbl_base = col_base.sum(axis=1, keepdims=True)
cmp2 = col_base / tbl_base
first_id = res2["dimensions"][2]["type"]["categories"][valid_cols[0]]["id"]
tr = {"columns_dimension": {"elements": {str(first_id): {"hide": True}}}}
sl = Cube(resp2, transforms=tr).partitions[0]
report("MR x CAT hidden column", lambda: sl.columns_margin_proportion, cmp2[:, 1:])

sys.exit(1 if failed else 0)
