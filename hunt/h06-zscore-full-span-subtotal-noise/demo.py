"""C10: residual z-scores / p-values of a subtotal that spans its whole dimension are float noise
(0, 1e-8, +/-inf with p-value 0.0) and are not transposition invariant.

For a row subtotal made of *all* rows the observed counts equal the column margins, i.e. observed ==
expected and the variance term (N - row_margin) is exactly 0: the standardized residual is 0/0, undefined
(NaN) - which is what `_Zscores._calculate_zscores` intends ("check if it'll be 0/0 ... and set to nan").
Transposing the cube must give the transposed answer (NaN column).

With weighted (non-integer) counts the library instead returns -inf for one cell (p-value 0.0: "highly
significant") in A x B, and 1e-8-ish values with p ~ 1.0 in B x A.
"""
import sys; src = "/repo/src"; sys.path.insert(0, src); import cr; cr.__path__ = [src + "/cr"]
import copy

import numpy as np

from cr.cube.cube import Cube

W = np.array([[0.6, 0.7, 2.3], [0.2, 0.7, 0.1], [0.7, 2.3, 1.1]])  # weighted counts, A (rows) x B (cols)
UNWEIGHTED = np.array([[6, 7, 23], [2, 7, 1], [7, 23, 11]])


def cat_dim(alias):
    return {
        "references": {"alias": alias, "name": alias.upper()},
        "type": {
            "class": "categorical",
            "ordinal": False,
            "categories": [
                {"id": i, "name": "%s%d" % (alias, i), "missing": False, "numeric_value": None}
                for i in (1, 2, 3)
            ],
        },
    }


def response(transposed):
    w = W.T if transposed else W
    uw = UNWEIGHTED.T if transposed else UNWEIGHTED
    dims = [cat_dim("b"), cat_dim("a")] if transposed else [cat_dim("a"), cat_dim("b")]
    return {
        "query": {"weight": "https://x/weight/"},
        "result": {
            "counts": [int(x) for x in uw.reshape(-1)],
            "dimensions": dims,
            "measures": {"count": {"data": [float(x) for x in w.reshape(-1)], "n_missing": 0,
                                   "metadata": {"type": {"class": "numeric", "integer": False}}}},
            "n": int(uw.sum()), "missing": 0, "element": "crunch:cube",
        },
    }


A_INSERTIONS = [
    {"function": "subtotal", "name": "a1+a2", "anchor": "bottom", "args": [1, 2], "id": 1},
    {"function": "subtotal", "name": "ALL", "anchor": "bottom", "args": [1, 2, 3], "id": 2},
]


def expected_z(counts):
    """Standardized residuals from first principles; exact arithmetic decides the 0/0 cells."""
    from fractions import Fraction as F

    n_rows, n_cols = len(counts), len(counts[0])
    N = sum(sum(r) for r in counts[:3])  # base rows only
    col = [sum(counts[i][j] for i in range(3)) for j in range(n_cols)]
    out = np.empty((n_rows, n_cols))
    for i in range(n_rows):
        row = sum(counts[i])
        for j in range(n_cols):
            var = row * col[j] * (N - row) * (N - col[j]) / N**3
            resid = counts[i][j] - row * col[j] / N
            out[i, j] = np.nan if var == 0 else float(resid) / float(var) ** 0.5
    return out


# --- exact (rational) counts: base rows then the two subtotal rows ---
from fractions import Fraction

base = [[Fraction(int(round(x * 10)), 10) for x in r] for r in W]
rows = base + [[base[0][j] + base[1][j] for j in range(3)], [base[0][j] + base[1][j] + base[2][j] for j in range(3)]]
EXPECTED = expected_z(rows)  # 5 x 3, last row all-NaN

s_ab = Cube(response(False), transforms={"rows_dimension": {"insertions": copy.deepcopy(A_INSERTIONS)}}).partitions[0]
s_ba = Cube(response(True), transforms={"columns_dimension": {"insertions": copy.deepcopy(A_INSERTIONS)}}).partitions[0]
assert list(s_ab.row_labels) == ["a1", "a2", "a3", "a1+a2", "ALL"], s_ab.row_labels
assert list(s_ba.column_labels) == ["a1", "a2", "a3", "a1+a2", "ALL"], s_ba.column_labels

failed = False
np.set_printoptions(precision=6, linewidth=160)


def check(what, got, want):
    global failed
    ok = got.shape == want.shape and np.allclose(got, want, equal_nan=True, rtol=1e-6, atol=1e-6) and not np.any(np.isinf(got))
    print(("ok    " if ok else "FAIL  ") + what)
    if not ok:
        failed = True
        print("   expected\n%s\n   got\n%s" % (want, got))


check("A x B zscores (rows a1,a2,a3,a1+a2,ALL)", s_ab.zscores, EXPECTED)
check("B x A zscores (cols a1,a2,a3,a1+a2,ALL)", s_ba.zscores, EXPECTED.T)
# --- p-value of an undefined residual is undefined too; certainly not 0.0 ("significant") ---
exp_p_last = np.full(3, np.nan)
check("A x B pvals of the ALL row", s_ab.pvals[-1], exp_p_last)
check("B x A pvals of the ALL column", s_ba.pvals[:, -1], exp_p_last)
tr_ok = np.allclose(s_ab.zscores, s_ba.zscores.T, equal_nan=True)
print(("ok    " if tr_ok else "FAIL  ") + "zscores(A x B) == zscores(B x A).T")
if not tr_ok:
    failed = True
    print("   A x B ALL row   :", s_ab.zscores[-1], "\n   B x A ALL column:", s_ba.zscores[:, -1])

sys.exit(1 if failed else 0)
