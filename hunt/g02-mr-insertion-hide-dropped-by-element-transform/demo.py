"""A derived ('any selected') multiple-response item that the analysis hides through the
`"hide": true` flag of its insertion re-appears as soon as the same analysis also carries ANY
element transform (a fill colour, a rename) for that item.

PROPERTY C09: a base element is absent from the display exactly when it is explicitly hidden.
The only thing that differs between the two analyses below is a fill colour / a new name for the
item that is hidden in both; a fill or a name is not a "show" request.

Usage: demo.py [SRC]   (SRC defaults to the library under test)
"""
import sys

src = sys.argv[1] if len(sys.argv) > 1 else "/repo/src"
sys.path.insert(0, src)
import cr

cr.__path__ = [src + "/cr"]

import copy
import json

from cr.cube.cube import Cube

FIXTURE = "/repo/tests/fixtures/mr_insertions/mr-x-cat.json"
with open(FIXTURE) as f:
    RESPONSE = json.load(f)

# --- the MR dimension of the fixture: one derived item "A&B" (any of bool1, bool2) + 3 real items
mr_dim = RESPONSE["result"]["dimensions"][0]
items = [
    (
        e["value"]["references"]["alias"],
        e["value"]["references"]["name"],
        bool(e["value"].get("derived")),
    )
    for e in mr_dim["type"]["elements"]
]
derived_alias, derived_name = [(a, n) for a, n, d in items if d][0]
view_insertion = mr_dim["references"]["view"]["transform"]["insertions"][0]

# --- the analysis hides the variable's insertion by repeating it with "hide": true (this is the
# --- documented way, see test_it_ignores_hidden_mr_insertions)
hidden_insertion = dict(copy.deepcopy(view_insertion), hide=True)

# --- expectation from first principles: every item but the hidden one, in payload order
expected_labels = [n for a, n, d in items if a != derived_alias]

analyses = {
    "hide only": {"rows_dimension": {"insertions": [hidden_insertion]}},
    "hide + fill": {
        "rows_dimension": {
            "insertions": [hidden_insertion],
            "elements": {derived_alias: {"fill": "#ff0000"}},
        }
    },
    "hide + rename": {
        "rows_dimension": {
            "insertions": [hidden_insertion],
            "elements": {derived_alias: {"name": "Either"}},
        }
    },
}

bad = 0
for title, transforms in analyses.items():
    slice_ = Cube(copy.deepcopy(RESPONSE), transforms=copy.deepcopy(transforms)).partitions[0]
    labels = slice_.row_labels.tolist()
    ok = labels == expected_labels
    bad += not ok
    print("%-14s rows: %-55s %s" % (title, labels, "ok" if ok else "<-- hidden item is displayed"))
    if not ok:
        print("%-14s expected: %s, shape %s" % ("", expected_labels, slice_.shape))

# --- an explicit "hide": False in the element transform is a genuine "show" and must keep working
show = {
    "rows_dimension": {
        "insertions": [hidden_insertion],
        "elements": {derived_alias: {"hide": False}},
    }
}
labels = Cube(copy.deepcopy(RESPONSE), transforms=show).partitions[0].row_labels.tolist()
print("%-14s rows: %s (explicit show, informational)" % ("hide + show", labels))

sys.exit(1 if bad else 0)
