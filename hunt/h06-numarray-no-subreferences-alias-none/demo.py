"""C19: numeric-array items cannot be referenced (by sub-variable id or element id), and an explicit order
even *drops rows*, when the measure metadata carries no sub-references (as in the shipped fixtures
numeric_arrays/num-arr-means-no-grouping.json and num-arr-sum-no-grouping.json: `"references": {}`).

The numeric-array dimension is synthesised by the library from the measure metadata
(`metadata.type.subvariables` = ["0001", "0002", "0003"]); its items have element ids 0, 1, 2 and
sub-variable ids "0001".."0003".  Whatever aliases exist or not, hide / rename / explicit order / fixed
lists that name an item by sub-variable id or by element id (int or str) must act on that item, and every
item must still be shown exactly once.
"""
import sys; src = "/repo/src"; sys.path.insert(0, src); import cr; cr.__path__ = [src + "/cr"]
import copy

import numpy as np

from cr.cube.cube import Cube

MEANS = [2.5, 25.0, 7.0]
VALID = [6, 5, 4]
META = {
    "derived": True,
    "references": {},  # <- no alias / name / subreferences, like the shipped "no-grouping" fixtures
    "type": {"class": "numeric", "integer": False, "missing_reasons": {"No Data": -1}, "missing_rules": {},
             "subvariables": ["0001", "0002", "0003"]},
}
RESPONSE = {
    "query": {"dimensions": [], "weight": None},
    "result": {
        "counts": [6],
        "dimensions": [],
        "element": "crunch:cube",
        "measures": {
            "valid_count_unweighted": {"data": VALID, "n_missing": 0, "metadata": META},
            "mean": {"data": [MEANS], "n_missing": 0, "metadata": META},
        },
        "missing": 0,
        "n": 6,
    },
}


def means(transforms):
    strand = Cube(copy.deepcopy(RESPONSE), transforms=copy.deepcopy(transforms)).partitions[0]
    return [float(x) for x in strand.means], [str(x) for x in strand.row_labels]


base, _ = means({})
assert base == MEANS, base  # untransformed strand is fine

failed = False


def check(what, transforms, exp_means, exp_labels=None):
    global failed
    try:
        got, labels = means(transforms)
    except Exception as e:  # noqa
        failed = True
        print("FAIL  %s: raised %s: %s" % (what, type(e).__name__, e))
        return
    ok = got == exp_means and (exp_labels is None or labels == exp_labels)
    print(("ok    " if ok else "FAIL  ") + what)
    if not ok:
        failed = True
        print("      expected means %r %s\n      got      means %r %s" % (exp_means, exp_labels or "", got, labels if exp_labels else ""))


for ref in ("0002", 1, "1"):
    check("hide item referenced as %r" % (ref,), {"rows_dimension": {"elements": {ref: {"hide": True}}}},
          [2.5, 7.0])
    check("rename item referenced as %r" % (ref,), {"rows_dimension": {"elements": {ref: {"name": "Second"}}}},
          MEANS, ["", "Second", ""])
for refs in (["0003", "0001", "0002"], [2, 0, 1], ["2", "0", "1"]):
    check("explicit order %r" % (refs,), {"rows_dimension": {"order": {"type": "explicit", "element_ids": refs}}},
          [7.0, 2.5, 25.0])
check("explicit order naming nothing (all items must still be listed once)",
      {"rows_dimension": {"order": {"type": "explicit", "element_ids": []}}}, MEANS)
check("label sort (all labels equal) with item 1 fixed on top",
      {"rows_dimension": {"order": {"type": "label", "direction": "ascending", "fixed": {"top": [1]}}}},
      [25.0, 2.5, 7.0])

sys.exit(1 if failed else 0)
