"""For a multiple-response ROWS dimension every cell has its own column base (an item is not shown
to / answered by everybody), so `columns_base` and `columns_margin` are returned 2-D.  The squared
weight base `columns_squared_base` - the third ingredient of the effective base
(sum w)^2 / sum w^2 of the weighted pairwise test - is instead returned 1-D and holds the values of the
FIRST MR row only.  Everything built from it for rows 1.. is wrong, e.g. the t statistics of
`pairwise_significance_tests` (no transforms involved, so this is not the known "computed from the
displayed slice" problem).

PROPERTY C02 (the 1-D margins are exactly the collapsed forms of the per-cell bases) and C13 (effective
base (sum w)^2 / sum w^2 of the column base when squared weights are supplied).

Usage: demo.py [SRC]
"""
import sys

src = sys.argv[1] if len(sys.argv) > 1 else "/repo/src"
sys.path.insert(0, src)
import cr

cr.__path__ = [src + "/cr"]

import numpy as np

from cr.cube.cube import Cube

# --- respondent-level data: 12 respondents, MR with 3 items (0=selected, 1=other, 2=not shown),
# --- a 2-category variable and a weight
SEL, OTH, MIS = 0, 1, 2
mr = np.array(
    [
        [SEL, OTH, MIS], [SEL, SEL, MIS], [OTH, SEL, SEL], [SEL, MIS, SEL],
        [OTH, MIS, OTH], [SEL, OTH, SEL], [MIS, SEL, OTH], [SEL, SEL, SEL],
        [OTH, OTH, MIS], [SEL, MIS, OTH], [MIS, SEL, SEL], [SEL, OTH, OTH],
    ]
)
cat = np.array([0, 1, 0, 1, 1, 0, 0, 1, 0, 1, 1, 0])
w = np.array([0.5, 2.0, 1.0, 1.5, 0.7, 1.2, 2.5, 0.4, 1.0, 3.0, 0.6, 1.1])

N, K = mr.shape
ind_mr = np.stack([mr == s for s in range(3)], axis=2).astype(float)  # (N, K, 3)
ind_cat = np.stack([cat == c for c in range(2)], axis=1).astype(float)  # (N, 2)


def tab(weights):
    return np.einsum("n,nks,nc->ksc", weights, ind_mr, ind_cat).flatten().tolist()


subrefs = [{"alias": "it%d" % k, "name": "Item %d" % k} for k in range(K)]
refs = {"alias": "mr", "name": "MR", "subreferences": subrefs}
response = {
    "result": {
        "dimensions": [
            {
                "type": {
                    "class": "enum",
                    "subtype": {"class": "variable"},
                    "elements": [
                        {"id": k + 1, "missing": False,
                         "value": {"id": "000%d" % (k + 1), "references": subrefs[k], "derived": False}}
                        for k in range(K)
                    ],
                },
                "references": refs,
            },
            {
                "type": {
                    "class": "categorical",
                    "categories": [
                        {"id": 1, "name": "Selected", "selected": True, "missing": False, "numeric_value": 1},
                        {"id": 0, "name": "Other", "missing": False, "numeric_value": 0},
                        {"id": -1, "name": "No Data", "missing": True, "numeric_value": None},
                    ],
                    "subvariables": ["000%d" % (k + 1) for k in range(K)],
                },
                "references": refs,
            },
            {
                "type": {
                    "class": "categorical",
                    "categories": [
                        {"id": 1, "name": "A", "missing": False, "numeric_value": None},
                        {"id": 2, "name": "B", "missing": False, "numeric_value": None},
                    ],
                },
                "references": {"alias": "cat", "name": "CAT"},
            },
        ],
        "counts": [int(x) for x in tab(np.ones(N))],
        "measures": {
            "count": {"metadata": {"type": {"class": "numeric"}}, "data": tab(w), "n_missing": 0},
            "weighted_squared_count": {"metadata": {"type": {"class": "numeric"}}, "data": tab(w**2), "n_missing": 0},
        },
        "n": N,
        "missing": 0,
    }
}

slice_ = Cube(response).partitions[0]

# --- first principles: per cell (item k, category c) the column base holds the respondents in c
# --- for whom item k is valid (selected or other)
valid = (mr != MIS).astype(float)
sel = (mr == SEL).astype(float)
W = np.einsum("n,nk,nc->kc", w, valid, ind_cat)  # weighted column base
W2 = np.einsum("n,nk,nc->kc", w**2, valid, ind_cat)  # squared-weight column base
n_eff = W**2 / W2
p = np.einsum("n,nk,nc->kc", w, sel, ind_cat) / W  # column proportions

bad = 0
print("columns_margin (library)      :\n", np.asarray(slice_.columns_margin))
got = np.asarray(slice_.columns_squared_base)
print("columns_squared_base (library): shape", got.shape, "\n", got)
print("sum of squared weights per cell (expected, from the respondents):\n", W2)
if got.shape != W2.shape or not np.allclose(got, W2):
    print("--> columns_squared_base is not the per-cell squared base (it repeats MR row 0 only)")
    bad += 1

# --- consequence: the pairwise t statistic against column 0 (C13 formula with the effective base)
se = np.sqrt(p * (1 - p) / n_eff)
t_exp = (p - p[:, [0]]) / np.sqrt(se**2 + se[:, [0]] ** 2)
t_new = slice_.pairwise_significance_t_stats(0)
t_old = slice_.pairwise_significance_tests[0].t_stats
print("t vs column 0, expected          :\n", t_exp)
print("pairwise_significance_t_stats(0) :\n", t_new)
print("pairwise_significance_tests[0].t_stats :\n", t_old)
if not np.allclose(t_new, t_exp, equal_nan=True):
    print("--> pairwise_significance_t_stats differs")
    bad += 1
if not np.allclose(t_old, t_exp, equal_nan=True):
    print("--> pairwise_significance_tests[0].t_stats is wrong from MR row 1 on")
    bad += 1

sys.exit(1 if bad else 0)
