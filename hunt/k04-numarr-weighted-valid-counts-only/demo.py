"""Numeric-array response that carries valid_count_weighted but no valid_count_unweighted:
every measure of every partition raises TypeError ('NoneType' object is not subscriptable).

(The same pairing - count + valid_count_weighted + mean, no unweighted valid counts - is what the
fixtures mr-mean-weighted.json / mr-x-cat-mean-weighted.json / mr-x-mr-mean-weighted.json carry
for a plain numeric variable, where it works.)
"""
import sys

src = sys.argv[1] if len(sys.argv) > 1 else "/repo/src"
sys.path.insert(0, src)
import cr  # noqa

cr.__path__ = [src + "/cr"]

import numpy as np  # noqa
from cr.cube.cube import Cube  # noqa

# ---------------------------------------------------------------- the survey (8 respondents)
gender = [1, 1, 1, 1, 2, 2, 2, 2]  # categorical, ids 1 / 2, nobody missing
weight = [0.5, 1.5, 1.0, 2.0, 1.0, 0.5, 2.5, 1.0]
# numeric array of two items; None = missing
items = [
    [10.0, 20.0, None, 40.0, 5.0, None, 15.0, 25.0],  # S1
    [1.0, None, 3.0, None, 2.0, 4.0, None, 6.0],  # S2
]


def cell(cat, k):
    rows = [i for i in range(8) if gender[i] == cat]
    valid = [i for i in rows if items[k][i] is not None]
    wsum = sum(weight[i] for i in valid)
    mean = sum(weight[i] * items[k][i] for i in valid) / wsum
    return len(rows), sum(weight[i] for i in rows), wsum, mean


meta = {
    "derived": True,
    "references": {
        "alias": "arr", "name": "Arr", "uniform_basis": False,
        "subreferences": [{"alias": "arr_1", "name": "S1"}, {"alias": "arr_2", "name": "S2"}],
    },
    "type": {"class": "numeric", "integer": False, "subvariables": ["S1", "S2"],
             "missing_reasons": {"No Data": -1}, "missing_rules": {}},
}
# measure data layout of a numeric array grouped by a categorical: [category][subvariable]
valid_w = [cell(c, k)[2] for c in (1, 2) for k in (0, 1)]
means = [cell(c, k)[3] for c in (1, 2) for k in (0, 1)]
response = {
    "result": {
        "dimensions": [
            {
                "references": {"alias": "gender", "name": "Gender"},
                "derived": False,
                "type": {"class": "categorical", "ordinal": False, "categories": [
                    {"id": 1, "name": "Male", "missing": False, "numeric_value": None},
                    {"id": 2, "name": "Female", "missing": False, "numeric_value": None},
                ]},
            }
        ],
        "counts": [cell(1, 0)[0], cell(2, 0)[0]],
        "measures": {
            "count": {"data": [cell(1, 0)[1], cell(2, 0)[1]], "n_missing": 0, "metadata": {}},
            "mean": {"data": means, "n_missing": 0, "metadata": meta},
            "valid_count_weighted": {"data": valid_w, "n_missing": 0, "metadata": meta},
        },
        "n": 8, "missing": 0, "element": "crunch:cube",
        "filtered": {"unweighted_n": 8, "weighted_n": 10.0},
        "unfiltered": {"unweighted_n": 8, "weighted_n": 10.0},
    }
}

# ---------------------------------------------------------------- expectation (rows = items, columns = categories)
exp_means = np.array([[cell(c, k)[3] for c in (1, 2)] for k in (0, 1)])
exp_wcounts = np.array([[cell(c, k)[2] for c in (1, 2)] for k in (0, 1)])

bad = False
part = Cube(response).partitions[0]
for name, exp in (("means", exp_means), ("counts", exp_wcounts), ("row_labels", None), ("row_proportions", None)):
    try:
        got = getattr(part, name)
    except Exception as e:  # noqa
        print("VIOLATION: .%s raised %s: %s" % (name, type(e).__name__, e))
        bad = True
        continue
    if exp is not None and not np.allclose(got, exp, equal_nan=True):
        print("VIOLATION: .%s = %s, expected %s" % (name, got.tolist(), exp.tolist()))
        bad = True
    else:
        print(".%s ok: %s" % (name, np.asarray(got).tolist()))
sys.exit(1 if bad else 0)
