"""A slice whose rows (or columns) dimension has no valid element - every category is
flagged missing - crashes all column/table base measures, the column/table proportions
and the column margins, although the library explicitly supports such a slice (counts,
row_proportions, row bases, rows_margin ... return properly shaped empty arrays, and
tests/integration/test_cubepart.py::test_it_accommodates_an_all_missing_element_rows_dimension
asserts it).

Input: the library's own fixture `cat-x-cat-all-missing-row-elements.json` (rows: B, C, No Data
all missing; columns: C, E valid), unmodified; plus its transpose.

Expected from first principles: nobody has a valid row answer, so
 * every 2-D measure is an empty array with shape (0 valid rows, 2 valid columns),
 * the per-column base/margin (# respondents in the column with a valid row answer) is 0
   for both columns, the scalar table base is 0 and its [min, max] range is [0, 0].
"""
import sys; src = "/repo/src"; sys.path.insert(0, src); import cr; cr.__path__ = [src + "/cr"]
import copy
import json
import numpy as np
from cr.cube.cube import Cube

resp = json.load(open("/repo/tests/fixtures/cat-x-cat-all-missing-row-elements.json"))
res = resp.get("result") or resp["value"]["result"]
dims = res["dimensions"]
row_valid = [i for i, c in enumerate(dims[0]["type"]["categories"]) if not c["missing"]]
col_valid = [i for i, c in enumerate(dims[1]["type"]["categories"]) if not c["missing"]]
raw = np.array(res["counts"], dtype=float).reshape(
    len(dims[0]["type"]["categories"]), len(dims[1]["type"]["categories"])
)
counts = raw[np.ix_(row_valid, col_valid)]  # shape (0, 2)
assert counts.shape == (0, 2)
col_base = counts.sum(axis=0)  # [0, 0]
table_base = counts.sum()  # 0

failed = False


def check(slice_, name, expected):
    global failed
    expected = np.asarray(expected, dtype=float)
    try:
        got = np.asarray(getattr(slice_, name), dtype=float)
    except Exception as e:  # noqa
        print(f"{name}: library raised {type(e).__name__}: {e}   (expected {expected.tolist()}, shape {expected.shape})")
        failed = True
        return
    if got.shape != expected.shape or not np.allclose(got, expected, equal_nan=True):
        print(f"{name}: MISMATCH library={got.tolist()} shape={got.shape} expected={expected.tolist()} shape={expected.shape}")
        failed = True
    else:
        print(f"{name}: ok {got.tolist()} shape={got.shape}")


empty = np.empty((0, 2))
print("=== rows dimension without valid elements (fixture as-is) ===")
sl = Cube(resp).partitions[0]
# --- these work today and define the library's intended behavior for this input
for name in ("counts", "unweighted_counts", "row_proportions", "row_weighted_bases", "row_unweighted_bases"):
    check(sl, name, empty)
check(sl, "rows_margin", np.empty(0))
check(sl, "table_margin", table_base)
check(sl, "table_base", table_base)
# --- these crash
for name in ("column_weighted_bases", "column_unweighted_bases", "table_weighted_bases",
             "table_unweighted_bases", "column_proportions", "table_proportions",
             "column_percentages", "table_percentages"):
    check(sl, name, empty)
check(sl, "columns_margin", col_base)
check(sl, "columns_base", col_base)
check(sl, "rows_margin_proportion", np.empty(0))
# --- informational only (np.min/np.max over an empty array; the "right" range of an empty
# --- table is debatable, so this does not decide the exit status)
_failed = failed
check(sl, "table_base_range", [table_base, table_base])
check(sl, "table_margin_range", [table_base, table_base])
failed = _failed
sl = Cube(resp, mask_size=5).partitions[0]
for name in ("row_mask", "column_mask", "table_mask"):
    try:
        got = getattr(sl.min_base_size_mask, name)
        ok = got.shape == (0, 2)
        print(f"min_base_size_mask.{name}: {'ok' if ok else 'MISMATCH'} shape={got.shape}")
        failed |= not ok
    except Exception as e:  # noqa
        print(f"min_base_size_mask.{name}: library raised {type(e).__name__}: {e}   (expected empty (0, 2) mask)")
        failed = True

print("=== columns dimension without valid elements (transposed fixture) ===")
resp_t = copy.deepcopy(resp)
res_t = resp_t.get("result") or resp_t["value"]["result"]
res_t["dimensions"] = res_t["dimensions"][::-1]
res_t["counts"] = [int(x) for x in raw.T.flatten()]
res_t["measures"]["count"]["data"] = [int(x) for x in raw.T.flatten()]
sl = Cube(resp_t).partitions[0]
empty_t = np.empty((2, 0))
for name in ("counts", "column_proportions", "column_weighted_bases"):
    check(sl, name, empty_t)
for name in ("row_weighted_bases", "row_unweighted_bases", "table_weighted_bases",
             "table_unweighted_bases", "row_proportions", "table_proportions"):
    check(sl, name, empty_t)
check(sl, "rows_margin", col_base)
check(sl, "rows_base", col_base)

sys.exit(1 if failed else 0)
