"""Cube.valid_counts_summary_range / CubeSet.valid_counts_summary_range sums the wrong axis
when a multiple-response dimension precedes a categorical one.

The summary range is documented as: sum the (unweighted) valid counts over all the NON-array
dimensions of the cube, then take (min, max).  The positions of the non-array dimensions are
taken from `Cube.dimension_types` (the *apparent* dimensions, MR selection axis removed) but are
applied to the raw valid-count array, which still has the MR selection axis.  For MR x CAT the
"CAT" position (1) is the MR selection axis of the data, so the library adds "selected" and
"not selected" together and keeps the categories apart instead of the reverse.  The transposed
response CAT x MR (same survey, same numbers) gives the right answer, so a cube-level scalar
changes when the two dimensions of the response are exchanged.
"""
import sys; src = "/repo/src"; sys.path.insert(0, src); import cr; cr.__path__ = [src + "/cr"]

import numpy as np
from cr.cube.cube import Cube, CubeSet

# --- respondents with a valid numeric answer, tabulated by MR item (2), selection state
# --- (selected / other / missing) and category (A, B, No Data)
#                      A  B  ND
VALID = np.array(
    [
        [[5, 1, 0], [2, 8, 0], [0, 0, 0]],  # item 1: selected / other / missing
        [[3, 3, 0], [4, 6, 0], [0, 0, 0]],  # item 2
    ]
)
MEANS = np.arange(VALID.size, dtype=float).reshape(VALID.shape) + 1.0


def mr_dims():
    refs = {
        "alias": "mr",
        "name": "MR",
        "subreferences": [{"alias": "mr_1", "name": "item 1"}, {"alias": "mr_2", "name": "item 2"}],
    }
    subvars = {
        "references": refs,
        "derived": True,
        "type": {
            "class": "enum",
            "subtype": {"class": "variable"},
            "elements": [
                {"id": 1, "missing": False, "value": {"id": "0001", "derived": False, "references": refs["subreferences"][0]}},
                {"id": 2, "missing": False, "value": {"id": "0002", "derived": False, "references": refs["subreferences"][1]}},
            ],
        },
    }
    selection = {
        "references": refs,
        "derived": True,
        "type": {
            "class": "categorical",
            "ordinal": False,
            "subvariables": ["0001", "0002"],
            "categories": [
                {"id": 1, "name": "Selected", "missing": False, "numeric_value": 1, "selected": True},
                {"id": 0, "name": "Other", "missing": False, "numeric_value": 0},
                {"id": -1, "name": "No Data", "missing": True, "numeric_value": None},
            ],
        },
    }
    return [subvars, selection]


def cat_dim():
    return {
        "references": {"alias": "cat", "name": "CAT"},
        "derived": False,
        "type": {
            "class": "categorical",
            "ordinal": False,
            "categories": [
                {"id": 1, "name": "A", "missing": False, "numeric_value": None},
                {"id": 2, "name": "B", "missing": False, "numeric_value": None},
                {"id": -1, "name": "No Data", "missing": True, "numeric_value": None},
            ],
        },
    }


def response(dims, valid, means):
    md = {"derived": True, "references": {"alias": "age", "name": "Age"}, "type": {"class": "numeric"}}
    return {
        "result": {
            "counts": [int(x) for x in valid.flatten()],
            "dimensions": dims,
            "measures": {
                "mean": {"data": [float(x) for x in means.flatten()], "metadata": md, "n_missing": 0},
                "valid_count_unweighted": {"data": [int(x) for x in valid.flatten()], "metadata": md, "n_missing": 0},
            },
            "n": int(valid.sum()),
        }
    }


mr_x_cat = response(mr_dims() + [cat_dim()], VALID, MEANS)
# --- the same survey with the two variables exchanged: axes (cat, item, selection)
cat_x_mr = response([cat_dim()] + mr_dims(), VALID.transpose(2, 0, 1), MEANS.transpose(2, 0, 1))

# --- first principles: for every MR item and (valid) selection state, the number of respondents
# --- with a valid numeric answer over all valid categories (the one non-array dimension)
per_item_state = VALID[:, :2, :2].sum(axis=2)  # valid states x valid categories
expected = (float(per_item_state.min()), float(per_item_state.max()))  # (6, 10)

got_mr_x_cat = tuple(float(x) for x in Cube(mr_x_cat).valid_counts_summary_range)
got_cat_x_mr = tuple(float(x) for x in Cube(cat_x_mr).valid_counts_summary_range)
got_set = tuple(float(x) for x in CubeSet([mr_x_cat], [{}], 1000, 0).valid_counts_summary_range)

print("dimension types        :", [t.name for t in Cube(mr_x_cat).dimension_types])
print("expected (min, max)    :", expected)
print("CAT x MR   (transposed):", got_cat_x_mr)
print("MR x CAT               :", got_mr_x_cat)
print("CubeSet([MR x CAT])    :", got_set)

bad = False
if got_cat_x_mr != expected:
    print("DIFF: CAT x MR differs from expected")
    bad = True
if got_mr_x_cat != expected:
    print("DIFF: MR x CAT summary range %r != %r (selected+other were added per category)" % (got_mr_x_cat, expected))
    bad = True
if got_mr_x_cat != got_cat_x_mr:
    print("DIFF: exchanging the two dimensions of the response changes the cube-level summary range")
    bad = True
sys.exit(1 if bad else 0)
