"""C14: the overall scale-mean / scale-median margins crash (IndexError) when the dimension they
are summarised over has numeric values but the *other* dimension has no valid category
(empty table: every respondent is missing on it).  There are then no numeric-valued
respondents at all, so - like a vector without numeric-valued respondents - the margin should be
NaN (or None), as the per-vector outputs (`rows_scale_mean` == [] ...) already are."""
import sys; src = "/repo/src"; sys.path.insert(0, src); import cr; cr.__path__ = [src + "/cr"]
import json, warnings
import numpy as np
from cr.cube.cube import Cube

warnings.filterwarnings("ignore")


def cat(id_, missing, numeric_value=None):
    return {"id": id_, "name": "c%d" % id_, "numeric_value": numeric_value, "missing": missing}


def dim(alias, cats):
    return {
        "type": {"class": "categorical", "ordinal": False, "categories": cats},
        "references": {"alias": alias, "name": alias},
        "derived": False,
    }


def cube(row_cats, col_cats, counts):
    return {
        "result": {
            "n": int(sum(counts)),
            "counts": counts,
            "dimensions": [dim("r", row_cats), dim("c", col_cats)],
            "measures": {
                "count": {
                    "metadata": {"type": {"class": "numeric", "integer": True}, "derived": True, "references": {}},
                    "data": counts,
                    "n_missing": int(sum(counts)),
                }
            },
        }
    }


# --- rows carry numeric values 1, 2, 5; the only column category is missing => 3 x 0 table
zero_cols = cube(
    [cat(1, False, 1.0), cat(2, False, 2.0), cat(3, False, 5.0)],
    [cat(-1, True)],
    [4, 3, 2],
)
# --- columns carry numeric values; the only row category is missing => 0 x 3 table
zero_rows = cube(
    [cat(-1, True)],
    [cat(1, False, 1.0), cat(2, False, 2.0), cat(3, False, 5.0)],
    [4, 3, 2],
)
# --- shipped fixture: rows all missing, column categories have numeric values 1 and 3
fixture = json.load(open("/repo/tests/fixtures/cat-x-cat-all-missing-row-elements.json"))

cases = [
    # (name, cube, table shape, orientation, numeric values of the valid scaled categories)
    ("synthetic 3 x 0", zero_cols, (3, 0), "columns", [1.0, 2.0, 5.0]),
    ("synthetic 0 x 3", zero_rows, (0, 3), "rows", [1.0, 2.0, 5.0]),
    ("fixture cat-x-cat-all-missing-row-elements.json", fixture, (0, 2), "rows", [1.0, 3.0]),
]


def expected_margin(numeric_values, weighted_margin):
    """first principles: weighted mean / median of the numeric values of all respondents"""
    vals = np.repeat(np.array(numeric_values, dtype=float), np.array(weighted_margin, dtype=int))
    return (np.nan, np.nan) if vals.size == 0 else (vals.mean(), np.median(vals))


failed = False
for name, cube_dict, shape, orient, numeric_values in cases:
    slice_ = Cube(cube_dict).partitions[0]
    assert slice_.counts.shape == shape, slice_.counts.shape
    # nobody is counted in the table: every category of the scaled dimension has margin 0
    exp_mean, exp_median = expected_margin(numeric_values, [0] * len(numeric_values))  # -> nan, nan
    # the per-vector outputs are fine (empty vectors)
    vec = getattr(slice_, "%s_scale_mean" % orient)
    assert vec is not None and vec.shape == ((shape[0],) if orient == "rows" else (shape[1],)), vec
    for what, exp in (("scale_mean_margin", exp_mean), ("scale_median_margin", exp_median)):
        prop = "%s_%s" % (orient, what)
        try:
            got = getattr(slice_, prop)
        except Exception as e:  # noqa
            failed = True
            print(f"[{name}] {prop}: library raised {type(e).__name__}: {e}; expected NaN/None (no respondents)")
            continue
        if not (got is None or np.isnan(got)):
            failed = True
            print(f"[{name}] {prop}: library {got}; expected NaN/None (no respondents)")

if failed:
    print("FAIL: scale margins crash when the opposing dimension has no valid element")
    sys.exit(1)
print("OK")
sys.exit(0)
