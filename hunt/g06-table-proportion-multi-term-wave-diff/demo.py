"""Multi-term wave difference is NaN in row/column proportions but not in table proportions.

C04: "on a categorical-date dimension ... a difference with several terms on either side is NaN in
every proportion".  For a CAT x CAT_DATE slice with the column insertion (w2 + w3) - w1 the library
reports NaN row- and column-proportions, but `table_proportions` / `table_percentages` (and the
table std-err / MoE derived from them) hold numbers.  The 1-D strand of the very same date variable
with the very same insertion reports NaN `table_proportions`, so slice and strand disagree.
"""
import sys

src = "/repo/src"
sys.path.insert(0, src)
import cr

cr.__path__ = [src + "/cr"]

import numpy as np

from cr.cube.cube import Cube

COUNTS = np.array([[6, 3, 1], [2, 4, 6], [3, 3, 2]])


def cat_dim(alias, n, date):
    cats = []
    for i in range(n):
        c = {"id": i + 1, "missing": False, "name": "%s%d" % (alias, i + 1)}
        if date:
            c["date"] = "2021-0%d" % (i + 1)
        cats.append(c)
    return {"references": {"alias": alias, "name": alias}, "type": {"class": "categorical", "ordinal": False, "categories": cats}}


def response(dims, counts):
    counts = [int(x) for x in np.ravel(counts)]
    return {
        "result": {
            "counts": counts,
            "dimensions": dims,
            "measures": {"count": {"data": counts, "n_missing": 0, "metadata": {"type": {"class": "numeric", "integer": True}}}},
            "missing": 0,
            "n": sum(counts),
        }
    }


MULTI = {"function": "subtotal", "anchor": "bottom", "name": "(w2+w3)-w1", "kwargs": {"positive": [2, 3], "negative": [1]}}
ONE = {"function": "subtotal", "anchor": "bottom", "name": "w3-w1", "kwargs": {"positive": [3], "negative": [1]}}

bad = 0
# ---------------- slice: CAT x CAT_DATE, insertions on the date columns
slice_ = Cube(
    response([cat_dim("r", 3, False), cat_dim("w", 3, True)], COUNTS),
    transforms={"columns_dimension": {"insertions": [ONE, MULTI]}},
).partitions[0]
N = COUNTS.sum()
tp = COUNTS / N
one_minus_one = tp[:, 2] - tp[:, 0]  # difference of the two (table) percentages
print("slice column labels        :", list(slice_.column_labels))
print("slice column_proportions   :\n", slice_.column_proportions[:, 3:])
print("slice row_proportions      :\n", slice_.row_proportions[:, 3:])
print("slice table_proportions    :\n", slice_.table_proportions[:, 3:])
if not np.allclose(slice_.table_proportions[:, 3], one_minus_one):
    print("one-minus-one table proportion is not the difference of the two percentages")
    bad += 1
for name in ("column_proportions", "row_proportions", "table_proportions", "table_percentages"):
    col = np.asarray(getattr(slice_, name))[:, 4]
    if not np.all(np.isnan(col)):
        print("VIOLATION: slice.%s of the multi-term wave difference is %s, expected all NaN" % (name, col))
        bad += 1

# ---------------- transposed slice: CAT_DATE x CAT, insertions on the date rows
slice_t = Cube(
    response([cat_dim("w", 3, True), cat_dim("r", 3, False)], COUNTS.T),
    transforms={"rows_dimension": {"insertions": [ONE, MULTI]}},
).partitions[0]
row = slice_t.table_proportions[4, :]
if not np.all(np.isnan(row)):
    print("VIOLATION: (transposed) slice.table_proportions of the multi-term wave difference is %s" % row)
    bad += 1

# ---------------- strand of the same date variable: NaN, as the property says
strand = Cube(
    response([cat_dim("w", 3, True)], COUNTS.sum(axis=0)),
    transforms={"rows_dimension": {"insertions": [ONE, MULTI]}},
).partitions[0]
print("strand table_proportions   :", strand.table_proportions)
if not np.isnan(strand.table_proportions[4]):
    print("strand multi-term difference unexpectedly not NaN")
    bad += 1

sys.exit(1 if bad else 0)
