"""Share of sum is +-inf when the total it divides by is exactly zero.

A numeric variable that can be negative (a balance / net change): four respondents

    respondent  row  column   x
        1        r1    c1    +5
        2        r2    c1    -5
        3        r1    c2    +3
        4        r2    c2    +1

Sum per cell = [[5, 3], [-5, 1]].  The total of column c1 is 5 + (-5) = 0, so the column shares
of c1, 5/0 and -5/0, are undefined and must be NaN.  The library reports +inf / -inf (slice
`column_share_sum`) and likewise for the 1-D strand of column c1 alone (`share_sum`).
"""
import math
import sys

src = "/repo/src"
sys.path.insert(0, src)
import cr  # noqa: E402

cr.__path__ = [src + "/cr"]

import numpy as np  # noqa: E402
from cr.cube.cube import Cube  # noqa: E402

RESP = [(0, 0, 5.0), (1, 0, -5.0), (0, 1, 3.0), (1, 1, 1.0)]  # (row, col, x)


def cat_dim(alias, n):
    return {
        "type": {"class": "categorical", "ordinal": False, "categories": [{"id": i + 1, "name": "%s%d" % (alias, i + 1), "missing": False, "numeric_value": None} for i in range(n)]},
        "references": {"alias": alias, "name": alias},
        "derived": False,
    }


def measures(counts, sums):
    meta = {"derived": True, "references": {"alias": "x", "name": "x"}, "type": {"class": "numeric", "integer": False, "missing_reasons": {"No Data": -1}, "missing_rules": {}}}
    return {
        "sum": {"metadata": meta, "data": sums, "n_missing": 0},
        "valid_count_unweighted": {"metadata": meta, "data": counts, "n_missing": 0},
    }


def expected_share(value, total):
    return float("nan") if total == 0 else value / total


def same(a, b):
    return (math.isnan(a) and math.isnan(b)) or (not math.isinf(a) and abs(a - b) < 1e-12)


bad = False

# ---- 2-D slice ------------------------------------------------------------------------
sums = [[0.0, 0.0], [0.0, 0.0]]
counts = [[0, 0], [0, 0]]
for r, c, x in RESP:
    sums[r][c] += x
    counts[r][c] += 1
resp2d = {
    "result": {
        "n": 4,
        "counts": [v for row in counts for v in row],
        "dimensions": [cat_dim("r", 2), cat_dim("c", 2)],
        "measures": measures([v for row in counts for v in row], [v for row in sums for v in row]),
        "missing": 0,
        "element": "crunch:cube",
    }
}
slice_ = Cube(resp2d).partitions[0]
got = slice_.column_share_sum
col_totals = [sums[0][j] + sums[1][j] for j in range(2)]
print("sums            :", slice_.sums.tolist())
print("column_share_sum:", got.tolist())
for i in range(2):
    for j in range(2):
        exp = expected_share(sums[i][j], col_totals[j])
        if not same(float(got[i, j]), exp):
            bad = True
            print("  cell (%d, %d): got %s, expected %s" % (i, j, got[i, j], exp))

# ---- 1-D strand: only the respondents of column c1 ------------------------------------
s1 = [sum(x for r, c, x in RESP if c == 0 and r == i) for i in range(2)]
n1 = [sum(1 for r, c, x in RESP if c == 0 and r == i) for i in range(2)]
resp1d = {
    "result": {
        "n": 2,
        "counts": n1,
        "dimensions": [cat_dim("r", 2)],
        "measures": measures(n1, s1),
        "missing": 0,
        "element": "crunch:cube",
    }
}
strand = Cube(resp1d).partitions[0]
got1 = strand.share_sum
print("strand share_sum:", got1.tolist())
for i in range(2):
    exp = expected_share(s1[i], sum(s1))
    if not same(float(got1[i]), exp):
        bad = True
        print("  row %d: got %s, expected %s" % (i, got1[i], exp))

sys.exit(1 if bad else 0)
