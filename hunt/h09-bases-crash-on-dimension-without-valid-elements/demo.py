"""C16 / C17 / C20: IndexError when a dimension has no valid (non-missing) element.

A CAT x CAT_DATE cube whose rows variable (or columns variable) has only missing categories is an
"empty table": `_Slice.shape` is (0, 2) resp. (2, 0), `.counts`, `.row_proportions`/`.column_proportions`
(the one along the surviving axis), `.table_base` and `.is_empty` all work and the `shape` docstring says any
count in it can be zero.  The measures of the three properties are then vacuous: column index, population
estimates, their MoE and every smoothed measure must be an empty array of that same shape.  Instead they
raise IndexError from the bases measures, which pick "row 0" / "column 0" of the empty base array.
"""
import sys; src = "/repo/src"; sys.path.insert(0, src); import cr; cr.__path__ = [src + "/cr"]
import warnings
import numpy as np
from cr.cube.cube import Cube

warnings.simplefilter("ignore")


def cat_dim(alias, n_valid, dates):
    cats = []
    for i in range(1, n_valid + 1):
        cat = {"id": i, "missing": False, "name": "%s%d" % (alias, i), "numeric_value": i}
        if dates:
            cat["date"] = "2020-%02d" % i
        cats.append(cat)
    cats.append({"id": 98, "missing": True, "name": "Skipped", "numeric_value": None})
    cats.append({"id": -1, "missing": True, "name": "No Data", "numeric_value": None})
    return {
        "derived": False,
        "references": {"alias": alias, "name": alias},
        "type": {"categories": cats, "class": "categorical", "ordinal": False},
    }


def cube_dict(n_valid_rows, n_valid_cols):
    n_rows, n_cols = n_valid_rows + 2, n_valid_cols + 2
    counts = (np.arange(n_rows * n_cols) + 1.0).tolist()
    return {
        "result": {
            "counts": counts,
            "dimensions": [cat_dim("r", n_valid_rows, False), cat_dim("w", n_valid_cols, True)],
            "element": "crunch:cube",
            "measures": {
                "count": {
                    "data": counts,
                    "metadata": {
                        "derived": True,
                        "references": {},
                        "type": {
                            "class": "numeric",
                            "integer": True,
                            "missing_reasons": {"No Data": -1},
                            "missing_rules": {},
                        },
                    },
                    "n_missing": 0,
                }
            },
            "missing": 0,
            "n": int(sum(counts)),
        }
    }


MEASURES = (
    "column_index",  # C16
    "population_counts",  # C17
    "population_counts_moe",  # C17
    "smoothed_column_proportions",  # C20
    "smoothed_column_percentages",  # C20
    "smoothed_column_index",  # C20
)
transforms = {"columns_dimension": {"smoother": {"function": "one_sided_moving_avg", "window": 2}}}
failures = 0
for n_valid_rows, n_valid_cols in ((0, 2), (2, 0)):
    slice_ = Cube(cube_dict(n_valid_rows, n_valid_cols), transforms=transforms, population=1000).partitions[0]
    expected_shape = (n_valid_rows, n_valid_cols)
    print(
        "valid rows x cols = %s: shape=%s counts.shape=%s is_empty=%s table_base=%s"
        % (expected_shape, slice_.shape, slice_.counts.shape, slice_.is_empty, slice_.table_base)
    )
    assert slice_.counts.shape == expected_shape
    for name in MEASURES:
        try:
            value = getattr(slice_, name)
        except Exception as e:  # noqa
            failures += 1
            print("   %-30s CRASH %s: %s" % (name, type(e).__name__, e))
            continue
        ok = value.shape == expected_shape
        failures += 0 if ok else 1
        print("   %-30s shape %s %s" % (name, value.shape, "ok" if ok else "WRONG (expected %s)" % (expected_shape,)))

if failures:
    print("VIOLATION: %d measures are not the empty array of the slice's shape" % failures)
    sys.exit(1)
print("OK")
sys.exit(0)
