"""C13: with overlap measures (CAT x MR) and only_larger=False, every cell's pairwise
index set contains the cell's OWN column, because the overlap helper reports p = 0.0
(instead of 1.0) for a column tested against itself."""
import sys; src = "/repo/src"; sys.path.insert(0, src); import cr; cr.__path__ = [src + "/cr"]
import json
import numpy as np
from scipy import stats
from cr.cube.cube import Cube

FIXTURE = "/repo/tests/fixtures/overlaps/cat-x-mr-gender-x-all-pets-owned.json"
d = json.load(open(FIXTURE))
r = d["result"]
ALPHA = 0.05
transforms = {"pairwise_indices": {"alpha": [ALPHA], "only_larger": False}}

# ---------------- first-principles expectation, straight from the payload ----------------
# dims: CAT(2 valid + 1 missing) x MR_SUBVAR(3) x MR_SEL(selected, other, missing)
n_cat, n_sub, n_sel = 3, 3, 3
valid_rows = [0, 1]  # category ids 1, 2 ; -1 is missing
counts = np.array(r["measures"]["count"]["data"], dtype=float).reshape(n_cat, n_sub, n_sel)
ovl = np.array(r["measures"]["overlap"]["data"], dtype=float).reshape(n_cat, n_sub, n_sel, n_sub)
vovl = np.array(r["measures"]["valid_overlap"]["data"], dtype=float).reshape(n_cat, n_sub, n_sel, n_sub)

sel = counts[valid_rows][:, :, 0]                     # selected counts (rows x subvars)
col_props = sel / sel.sum(axis=0)                     # column proportions
S = ovl[valid_rows][:, :, 0, :].sum(axis=0)           # selected overlap  (subvar x subvar)
V = vovl[valid_rows][:, :, 0:2, :].sum(axis=(0, 2))   # valid overlap     (subvar x subvar)


def t_and_p(i, a, b):
    """overlap-corrected test of column b against selected column a in row i"""
    if a == b:
        return 0.0, 1.0  # a column against itself: t = 0  =>  two-sided p = 1
    pa, pb, pab = S[a, a] / V[a, a], S[b, b] / V[b, b], S[a, b] / V[a, b]
    df = V[a, a] + V[b, b] - V[a, b]
    t = (col_props[i, b] - col_props[i, a]) / np.sqrt(
        (pa * (1 - pa) + pb * (1 - pb) + 2 * pa * pb - 2 * pab) / df
    )
    return t, 2 * (1 - stats.t.cdf(abs(t), df=df - 2))


n_rows, n_cols = col_props.shape
exp_idx = [
    [
        tuple(b for b in range(n_cols) if b != a and t_and_p(i, a, b)[1] < ALPHA)
        for a in range(n_cols)
    ]
    for i in range(n_rows)
]

# ---------------- library ----------------
slice_ = Cube(d, transforms=transforms).partitions[0]
lib_idx = slice_.pairwise_indices
failed = False

for a in range(n_cols):
    lib_t = slice_.pairwise_significance_t_stats(a)
    lib_p = slice_.pairwise_significance_p_vals(a)
    for i in range(n_rows):
        for b in range(n_cols):
            t, p = t_and_p(i, a, b)
            if not np.isclose(lib_t[i, b], t, equal_nan=True):
                failed = True
                print(f"t-stat  row {i} selected {a} vs {b}: library {lib_t[i, b]}  expected {t}")
            if not np.isclose(lib_p[i, b], p, equal_nan=True):
                failed = True
                print(f"p-value row {i} selected {a} vs {b}: library {lib_p[i, b]}  expected {p}")

for i in range(n_rows):
    for a in range(n_cols):
        got = tuple(int(x) for x in lib_idx[i, a])
        if got != exp_idx[i][a]:
            failed = True
            note = "  <-- contains its own column" if a in got else ""
            print(f"pairwise_indices[{i}, {a}]: library {got}  expected {exp_idx[i][a]}{note}")

if failed:
    print("FAIL: overlap pairwise test reports p=0 for a column against itself; "
          "index sets contain the column itself when only_larger is False")
    sys.exit(1)
print("OK")
sys.exit(0)
