"""A subtotal of a *sum* measure is NaN as soon as one addend cell is empty (sum = {"?": -8}).

Numeric array (2 items) summed, grouped by a categorical variable (A, B, C + "No Data") that has
the subtotal "A+B" defined on the variable.  Nobody in category B answered item 2, so zz9 reports
valid count 0 and sum {"?": -8} for that cell (as in the fixtures dichotomized-numeric-mean.json
and num-arr-sums-with-nan-values.json).

First principles: merging categories A and B in the data gives, for item 2, the sum of the A
respondents (the B respondents have nothing to add).  Shares of sum follow from those sums.
"""
import sys; src = "/repo/src"; sys.path.insert(0, src); import cr; cr.__path__ = [src + "/cr"]
import numpy as np
from cr.cube.cube import Cube

NAN = {"?": -8}
nan = float("nan")
# respondent-level data: (category id, item1, item2)
DATA = [
    (1, 4.0, 3.0), (1, 1.0, 2.0),           # A
    (2, 2.0, nan), (2, 5.0, nan),           # B: item 2 never answered
    (3, 6.0, 1.0),                          # C
    (-1, 9.0, 9.0),                         # No Data
]
CATS = [1, 2, 3, -1]


def cell(cat_ids, k):
    vals = [row[1 + k] for row in DATA if row[0] in cat_ids and not np.isnan(row[1 + k])]
    return len(vals), (sum(vals) if vals else nan)


valid, sums = [], []
for c in CATS:
    for k in range(2):
        n, s = cell([c], k)
        valid.append(n)
        sums.append(NAN if np.isnan(s) else s)

meta = {
    "references": {"alias": "movies", "name": "Movies",
                   "subreferences": [{"alias": "m1", "name": "Movie 1"}, {"alias": "m2", "name": "Movie 2"}]},
    "derived": True,
    "type": {"class": "numeric", "integer": False, "missing_rules": {}, "missing_reasons": {"No Data": -1, "NaN": -8},
             "subvariables": ["0001", "0002"]},
}
response = {"result": {
    "dimensions": [{
        "derived": False,
        "references": {"alias": "grp", "name": "Group", "view": {"transform": {"insertions": [
            {"function": "subtotal", "args": [1, 2], "name": "A+B", "anchor": 2, "id": 1}]}}},
        "type": {"class": "categorical", "ordinal": False, "categories": [
            {"id": 1, "name": "A", "missing": False, "numeric_value": None},
            {"id": 2, "name": "B", "missing": False, "numeric_value": None},
            {"id": 3, "name": "C", "missing": False, "numeric_value": None},
            {"id": -1, "name": "No Data", "missing": True, "numeric_value": None}]},
    }],
    "measures": {
        "valid_count_unweighted": {"data": valid, "n_missing": 0, "metadata": meta},
        "sum": {"data": sums, "n_missing": 0, "metadata": meta},
    },
    "counts": [2, 2, 1, 1], "n": 6, "missing": 0,
}}

slice_ = Cube(response).partitions[0]
assert list(slice_.column_labels) == ["A", "B", "A+B", "C"], slice_.column_labels

# ---- expectation from first principles (columns A, B, A+B, C ; rows item1, item2)
col_sets = [[1], [2], [1, 2], [3]]
exp_sums = np.array([[cell(cs, k)[1] for cs in col_sets] for k in range(2)])
base = exp_sums[:, [0, 1, 3]]                       # base (non-inserted) columns
exp_row_share = exp_sums / np.nansum(base, axis=1)[:, None]
exp_col_share = exp_sums / np.nansum(exp_sums, axis=0)[None, :]   # every column: total over the (base) rows
exp_tot_share = exp_sums / np.nansum(base)


def same(a, b):
    a, b = np.asarray(a, float), np.asarray(b, float)
    return a.shape == b.shape and bool(np.all((np.isnan(a) & np.isnan(b)) | (np.abs(a - b) < 1e-9)))


bad = 0
for name, got, exp in (
    ("sums", slice_.sums, exp_sums),
    ("row_share_sum", slice_.row_share_sum, exp_row_share),
    ("column_share_sum", slice_.column_share_sum, exp_col_share),
    ("total_share_sum", slice_.total_share_sum, exp_tot_share),
):
    if not same(got, exp):
        bad += 1
        print("MISMATCH %s\n  library : %s\n  expected: %s" % (name, np.asarray(got).tolist(), exp.tolist()))
    else:
        print("ok", name)
# the counts of the same subtotal are added up correctly, so only the sum measure is affected
print("unweighted_counts:", slice_.unweighted_counts.tolist())
sys.exit(1 if bad else 0)
