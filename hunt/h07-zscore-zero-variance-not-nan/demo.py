"""Residual z-scores / p-values are spurious (tiny numbers, 2.7, +/-inf, p = 0) instead of NaN
for cells whose row share or column share is exactly 1 on WEIGHTED data.

For such a cell  expected * (1 - row share) * (1 - column share) == 0  and
count == expected, so the adjusted standardized residual is 0/0: undefined -> NaN, and so is
its p-value. The library only returns NaN when rounding happens to cancel exactly.

Scenario 1: shipped fixture squared-weights-cat-x-cat.json (weighted CAT x CAT) plus an
            "All" subtotal (every category) on rows and on columns.
Scenario 2: weighted CAT x MR where one MR item was selected by every respondent
            (e.g. "aware of any brand" = 100 %), no transforms at all.

The oracle recomputes every cell with exact rational arithmetic (fractions.Fraction) from the
weighted counts found in the cube response - no library internals involved.
"""
import sys; src = "/repo/src"; sys.path.insert(0, src); import cr; cr.__path__ = [src + "/cr"]
import json, math, warnings
from fractions import Fraction as F
import numpy as np
from cr.cube.cube import Cube

warnings.filterwarnings("ignore")
FIX = "/repo/tests/fixtures/"


def z_and_p(count, R, C, T):
    """Exact adjusted standardized residual from a cell's own count and bases (Fractions)."""
    if T == 0:
        return math.nan, math.nan
    E = R * C / T
    V = E * (1 - R / T) * (1 - C / T)
    if V == 0:  # row share or column share is exactly 0 or 1 -> 0/0 -> undefined
        return math.nan, math.nan
    z = float(count - E) / math.sqrt(float(V))
    return z, math.erfc(abs(z) / math.sqrt(2))  # = 2 * (1 - Phi(|z|))


def report(title, got_z, got_p, exp_z, exp_p):
    got_z, got_p = np.asarray(got_z, float), np.asarray(got_p, float)
    bad_z = ~np.isclose(got_z, exp_z, rtol=1e-6, atol=1e-9, equal_nan=True)
    bad_p = ~np.isclose(got_p, exp_p, rtol=1e-6, atol=1e-9, equal_nan=True)
    print(title)
    for i, j in np.argwhere(bad_z | bad_p):
        print(
            f"   cell [{i},{j}]: z expected {exp_z[i, j]} got {got_z[i, j]!r};"
            f"  p expected {exp_p[i, j]} got {got_p[i, j]!r}"
        )
    return int((bad_z | bad_p).sum())


# ------------------------------------------------------------------ scenario 1
with open(FIX + "squared-weights-cat-x-cat.json") as f:
    resp = json.load(f)
res = resp["result"]
cats = [d["type"]["categories"] for d in res["dimensions"]]
shape = tuple(len(c) for c in cats)
raw = np.array([F(x) for x in res["measures"]["count"]["data"]], dtype=object).reshape(shape)
valid = [[k for k, c in enumerate(cs) if not c.get("missing")] for cs in cats]
ids = [[cs[k]["id"] for k in v] for cs, v in zip(cats, valid)]
counts = raw[np.ix_(valid[0], valid[1])]  # weighted counts of the valid cells, exact
nr, nc = counts.shape
transforms = {
    "rows_dimension": {"insertions": [
        {"function": "subtotal", "name": "All", "anchor": "bottom", "args": ids[0], "id": 1}]},
    "columns_dimension": {"insertions": [
        {"function": "subtotal", "name": "All", "anchor": "bottom", "args": ids[1], "id": 1}]},
}
# row / column "specs": each base element, then the All subtotal (anchored at the bottom)
row_specs = [[i] for i in range(nr)] + [list(range(nr))]
col_specs = [[j] for j in range(nc)] + [list(range(nc))]
T = sum(counts.ravel())
exp_z = np.empty((nr + 1, nc + 1)); exp_p = np.empty((nr + 1, nc + 1))
for a, rows in enumerate(row_specs):
    for b, cols in enumerate(col_specs):
        count = sum(counts[i, j] for i in rows for j in cols)
        R = sum(counts[i, j] for i in rows for j in range(nc))
        C = sum(counts[i, j] for i in range(nr) for j in cols)
        exp_z[a, b], exp_p[a, b] = z_and_p(count, R, C, T)
slice_ = Cube(resp, transforms=transforms).partitions[0]
assert list(slice_.row_labels)[-1] == "All" and list(slice_.column_labels)[-1] == "All"
n_bad = report("scenario 1: CAT x CAT weighted, 'All' subtotal row and column",
               slice_.zscores, slice_.pvals, exp_z, exp_p)

# ------------------------------------------------------------------ scenario 2
# weighted counts [row category][MR item][selected, not selected, missing]
w = [
    [[38.8, 0.0, 0.0], [12.3, 26.5, 0.0], [20.1, 18.7, 0.0]],
    [[94.1, 0.0, 0.0], [50.2, 43.9, 0.0], [30.4, 63.7, 0.0]],
    [[102.9, 0.0, 0.0], [40.9, 62.0, 0.0], [71.6, 31.3, 0.0]],
    [[0.0, 0.0, 0.0], [0.0, 0.0, 0.0], [0.0, 0.0, 0.0]],  # "No Data" row category
]
u = [
    [[40, 0, 0], [13, 27, 0], [21, 19, 0]],
    [[95, 0, 0], [51, 44, 0], [31, 64, 0]],
    [[101, 0, 0], [41, 60, 0], [70, 31, 0]],
    [[0, 0, 0], [0, 0, 0], [0, 0, 0]],
]
items = ["Aware of any brand", "Brand A", "Brand B"]
subrefs = [{"alias": f"aw_{k}", "name": n, "description": n} for k, n in enumerate(items)]
mr_refs = {"alias": "aware", "name": "Awareness", "description": None,
           "is_dichotomous": True, "subreferences": subrefs}
cube_dict = {
    "query": {},
    "result": {
        "element": "crunch:cube",
        "n": 236, "missing": 0,
        "counts": [x for r in u for i in r for x in i],
        "dimensions": [
            {"derived": False,
             "references": {"alias": "region", "name": "Region", "description": ""},
             "type": {"class": "categorical", "ordinal": False, "categories": [
                 {"id": 1, "missing": False, "name": "North", "numeric_value": None},
                 {"id": 2, "missing": False, "name": "Centre", "numeric_value": None},
                 {"id": 3, "missing": False, "name": "South", "numeric_value": None},
                 {"id": -1, "missing": True, "name": "No Data", "numeric_value": None}]}},
            {"derived": True, "references": mr_refs,
             "type": {"class": "enum", "subtype": {"class": "variable"}, "elements": [
                 {"id": k + 1, "missing": False,
                  "value": {"derived": False, "id": f"000{k}", "references": subrefs[k]}}
                 for k in range(3)]}},
            {"derived": True, "references": mr_refs,
             "type": {"class": "categorical", "ordinal": False,
                      "subvariables": ["0000", "0001", "0002"],
                      "categories": [
                          {"id": 1, "missing": False, "name": "Selected", "numeric_value": 1,
                           "selected": True},
                          {"id": 0, "missing": False, "name": "Not Selected", "numeric_value": 0},
                          {"id": -1, "missing": True, "name": "No Data", "numeric_value": None}]}},
        ],
        "measures": {"count": {
            "data": [x for r in w for i in r for x in i],
            "n_missing": 0,
            "metadata": {"derived": True, "references": {},
                         "type": {"class": "numeric", "integer": False,
                                  "missing_reasons": {"No Data": -1}, "missing_rules": {}}}}},
    },
}
W = np.array([[[F(x) for x in i] for i in r] for r in w], dtype=object)[:3]  # valid rows
exp_z = np.empty((3, 3)); exp_p = np.empty((3, 3))
for i in range(3):
    for j in range(3):
        count = W[i, j, 0]                                  # in row i AND selected item j
        R = W[i, j, 0] + W[i, j, 1]                         # in row i, answered item j
        C = sum(W[k, j, 0] for k in range(3))               # selected item j (valid row)
        T = sum(W[k, j, 0] + W[k, j, 1] for k in range(3))  # answered item j (valid row)
        exp_z[i, j], exp_p[i, j] = z_and_p(count, R, C, T)
slice_ = Cube(cube_dict).partitions[0]
n_bad += report("scenario 2: CAT x MR weighted, first MR item selected by everybody",
                slice_.zscores, slice_.pvals, exp_z, exp_p)

print("violations:", n_bad)
sys.exit(1 if n_bad else 0)
