"""A multiple-response insertion (derived item) flagged "hide": true in the analysis
transforms comes back as soon as ANY element transform (a fill colour, a rename) is
also stored for that item.

C09: a base element is absent from the display exactly when it is explicitly hidden
     (for an MR dimension the hide flag of the insertion is the hide request).
C05: hiding only selects - the other rows keep their values.

exit 1 when the library violates the property, 0 otherwise.
"""
import sys

src = "/repo/src"
sys.path.insert(0, src)
import cr  # noqa: E402

cr.__path__ = [src + "/cr"]

import copy  # noqa: E402
import numpy as np  # noqa: E402
from cr.cube.cube import Cube  # noqa: E402

# ---------------------------------------------------------------- the survey
# two real items + the derived item "x or y" computed by the server (anchor: top)
ITEMS = [
    {"alias": "x_or_y", "name": "x or y", "svid": "x or y", "derived": True, "anchor": "top"},
    {"alias": "mr_x", "name": "X", "svid": "0001", "derived": False},
    {"alias": "mr_y", "name": "Y", "svid": "0002", "derived": False},
]
# answers per respondent for (mr_x, mr_y): 1 selected, 0 not selected
ANSWERS = [(1, 0), (1, 1), (0, 1), (0, 0), (1, 0), (0, 0), (0, 1)]

INSERTION = {
    "function": "any_non_missing_selected",
    "name": "x or y",
    "anchor": "top",
    "id": 1,
    "kwargs": {"variable": "mr", "subvariable_ids": ["mr_x", "mr_y"]},
}


def response():
    counts = np.zeros((3, 3), dtype=int)  # item x (selected, other, missing)
    for x, y in ANSWERS:
        for i, sel in enumerate((x or y, x, y)):
            counts[i, 0 if sel else 1] += 1
    subrefs, elements = [], []
    for k, it in enumerate(ITEMS):
        ref = {"alias": it["alias"], "name": it["name"]}
        if it["derived"]:
            ref["anchor"] = it["anchor"]
        subrefs.append(ref)
        elements.append(
            {"id": k + 1, "missing": False, "value": {"derived": it["derived"], "id": it["svid"], "references": ref}}
        )
    refs = {
        "alias": "mr",
        "name": "MR",
        "subreferences": subrefs,
        "view": {"transform": {"insertions": [INSERTION]}},
    }
    return {
        "result": {
            "dimensions": [
                {"references": refs, "derived": True, "type": {"class": "enum", "subtype": {"class": "variable"}, "elements": elements}},
                {
                    "references": copy.deepcopy(refs),
                    "derived": True,
                    "type": {
                        "class": "categorical",
                        "ordinal": False,
                        "subvariables": [it["svid"] for it in ITEMS],
                        "categories": [
                            {"id": 1, "name": "Selected", "missing": False, "numeric_value": 1, "selected": True},
                            {"id": 0, "name": "Other", "missing": False, "numeric_value": 0},
                            {"id": -1, "name": "No Data", "missing": True, "numeric_value": None},
                        ],
                    },
                },
            ],
            "counts": counts.flatten().tolist(),
            "measures": {"count": {"data": counts.flatten().tolist(), "metadata": {"type": {"class": "numeric"}}, "n_missing": 0}},
            "n": len(ANSWERS),
            "missing": 0,
            "element": "crunch:cube",
        }
    }


# ---------------------------------------------------------------- first principles
# the hidden insertion is not displayed; the real items are, with their selected counts
expected_labels = ["X", "Y"]
expected_counts = [sum(a[0] for a in ANSWERS), sum(a[1] for a in ANSWERS)]

hidden_copy = dict(INSERTION, hide=True)
cases = {
    "hide flag only": {"rows_dimension": {"insertions": [hidden_copy]}},
    "hide flag + fill stored for the item": {
        "rows_dimension": {"insertions": [hidden_copy], "elements": {"x_or_y": {"fill": "#ff0000"}}}
    },
    "hide flag + rename stored for the item (by element id)": {
        "rows_dimension": {"insertions": [hidden_copy], "elements": {"1": {"name": "X or Y"}}}
    },
    "hide flag + empty element transform": {
        "rows_dimension": {"insertions": [hidden_copy], "elements": {"x_or_y": {}}}
    },
}

bad = False
for name, transforms in cases.items():
    strand = Cube(response(), transforms=transforms).partitions[0]
    labels = strand.row_labels.tolist()
    counts = strand.counts.tolist()
    ok = labels == expected_labels and counts == expected_counts
    print("%-55s labels=%s counts=%s  %s" % (name, labels, counts, "ok" if ok else "<-- hidden insertion is displayed"))
    bad = bad or not ok

sys.exit(1 if bad else 0)
