"""C10 (margins of array slices): `_Slice.columns_margin_proportion` (MR/array rows) and its mirror
`_Slice.rows_margin_proportion` (MR/array columns) are assembled twice.

When the rows dimension is an array (MR here) the columns-margin is 2-D (one weighted base per cell) and
`columns_margin_proportion` is documented as that margin's share of the table base, per cell, laid out
like every other matrix of the slice (same rows/columns as `counts`, `column_labels`...).  The mirror
statement holds for `rows_margin_proportion` of the transposed (CAT x MR) cube.

Expected values are derived here from the raw counts only.  As soon as a dimension is reordered, has an
element hidden, or has a subtotal, the library returns mis-aligned numbers or dies with IndexError.
"""
import sys; src = "/repo/src"; sys.path.insert(0, src); import cr; cr.__path__ = [src + "/cr"]
import copy

import numpy as np

from cr.cube.cube import Cube

ITEMS = ["dog", "cat", "fish"]
CATS = [(1, "north"), (2, "south"), (3, "east")]
# --- raw[item][sel(0=selected,1=other,2=missing)][cat(3 valid + missing)] ---
RAW = np.array(
    [
        [[10, 4, 6, 1], [5, 16, 4, 0], [1, 0, 2, 3]],
        [[3, 9, 12, 0], [12, 11, 0, 1], [1, 0, 0, 3]],
        [[8, 8, 2, 2], [2, 6, 18, 1], [6, 6, 0, 1]],
    ],
    dtype=float,
)


def mr_dims():
    subrefs = [{"alias": a, "name": a.title()} for a in ITEMS]
    refs = {"alias": "pets", "name": "Pets", "subreferences": subrefs}
    return [
        {
            "references": refs,
            "type": {
                "class": "enum",
                "subtype": {"class": "variable"},
                "elements": [
                    {"id": i + 1, "missing": False,
                     "value": {"id": "%04d" % (i + 1), "derived": False,
                               "references": {"alias": a, "name": a.title()}}}
                    for i, a in enumerate(ITEMS)
                ],
            },
        },
        {
            "references": refs,
            "type": {
                "class": "categorical",
                "ordinal": False,
                "categories": [
                    {"id": 1, "name": "Selected", "missing": False, "numeric_value": 1, "selected": True},
                    {"id": 0, "name": "Other", "missing": False, "numeric_value": 0},
                    {"id": -1, "name": "No Data", "missing": True, "numeric_value": None},
                ],
            },
        },
    ]


def cat_dim():
    return {
        "references": {"alias": "region", "name": "Region"},
        "type": {
            "class": "categorical",
            "ordinal": False,
            "categories": [{"id": i, "name": n, "missing": False, "numeric_value": None} for i, n in CATS]
            + [{"id": -1, "name": "No Data", "missing": True, "numeric_value": None}],
        },
    }


def response(mr_first):
    data = RAW if mr_first else RAW.transpose(2, 0, 1)
    flat = [int(x) for x in data.reshape(-1)]
    dims = mr_dims() + [cat_dim()] if mr_first else [cat_dim()] + mr_dims()
    return {
        "query": {},
        "result": {
            "counts": flat,
            "dimensions": dims,
            "measures": {"count": {"data": flat, "n_missing": 0,
                                   "metadata": {"type": {"class": "numeric", "integer": True}}}},
            "n": 75, "missing": 0, "element": "crunch:cube",
        },
    }


# --- first principles: for MR item i and region j the column base is selected + other, the table base of
# --- item i is that summed over the (valid) regions; P[i, j] is their ratio.
COLBASE = RAW[:, 0, :3] + RAW[:, 1, :3]
P = COLBASE / COLBASE.sum(axis=1, keepdims=True)  # shape (items, regions)

CASES = [
    ("no transforms", {}, {}, [0, 1, 2], [0, 1, 2]),
    ("MR items in explicit order fish, dog, cat",
     {"order": {"type": "explicit", "element_ids": ["fish", "dog", "cat"]}}, {}, [2, 0, 1], [0, 1, 2]),
    ("region 'south' hidden", {}, {"elements": {"2": {"hide": True}}}, [0, 1, 2], [0, 2]),
    ("MR item 'cat' hidden", {"elements": {"cat": {"hide": True}}}, {}, [0, 2], [0, 1, 2]),
    ("regions in explicit order east, north, south",
     {}, {"order": {"type": "explicit", "element_ids": [3, 1, 2]}}, [0, 1, 2], [2, 0, 1]),
    ("subtotal north+south anchored at top",
     {}, {"insertions": [{"function": "subtotal", "name": "N+S", "anchor": "top", "args": [1, 2], "id": 1}]},
     [0, 1, 2], ["N+S", 0, 1, 2]),
]


def expected(item_order, region_order):
    cols = []
    for r in region_order:
        cols.append(P[:, 0] + P[:, 1] if r == "N+S" else P[:, r])
    return np.array(cols).T[item_order, :]


failed = False
for what, mr_tr, cat_tr, item_order, region_order in CASES:
    exp = expected(item_order, region_order)
    for orientation in ("MR x CAT columns_margin_proportion", "CAT x MR rows_margin_proportion"):
        mr_first = orientation.startswith("MR")
        transforms = (
            {"rows_dimension": mr_tr, "columns_dimension": cat_tr}
            if mr_first
            else {"rows_dimension": cat_tr, "columns_dimension": mr_tr}
        )
        slice_ = Cube(response(mr_first), transforms=copy.deepcopy(transforms)).partitions[0]
        want = exp if mr_first else exp.T
        try:
            got = slice_.columns_margin_proportion if mr_first else slice_.rows_margin_proportion
        except Exception as e:  # noqa
            failed = True
            print("FAIL  %-45s %s: raised %s: %s" % (what, orientation, type(e).__name__, e))
            continue
        if got.shape != want.shape or not np.allclose(got, want):
            failed = True
            print("FAIL  %-45s %s\n   expected\n%s\n   got\n%s" % (what, orientation, np.round(want, 4), np.round(got, 4)))
        else:
            print("ok    %-45s %s" % (what, orientation))

sys.exit(1 if failed else 0)
