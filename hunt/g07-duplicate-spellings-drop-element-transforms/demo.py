"""Two element transforms that name the SAME array item by two different spellings
(e.g. an older entry keyed by sub-variable id and a newer one keyed by alias) do not
both apply: whichever entry comes last in the dict silently replaces the other one, so
a `"hide": true` (or a rename / fill) is lost and the output depends on key order.

C19: alias, sub-variable id and element id "all resolve to the same item and give
     identical output" - so {"0001": {"hide": true}, "cat": {"name": "CAT"}} must hide
     the item exactly like {"cat": {"hide": true, "name": "CAT"}} does.
C09: an element is absent from the display exactly when it is explicitly hidden.

exit 1 when the library violates the property, 0 otherwise.
"""
import sys

src = "/repo/src"
sys.path.insert(0, src)
import cr  # noqa: E402

cr.__path__ = [src + "/cr"]

import copy  # noqa: E402
import itertools  # noqa: E402
import numpy as np  # noqa: E402
from cr.cube.cube import Cube  # noqa: E402

# ---------------------------------------------------------------- the survey
CATS = [(1, "red"), (2, "blue")]
ITEMS = [  # element id, sub-variable id, alias, name
    (1, "0000", "dog", "Dog"),
    (2, "0001", "cat", "Cat"),
    (3, "0002", "bird", "Bird"),
]
# respondent: (colour id, (dog, cat, bird) selected flags)
PEOPLE = [
    (1, (1, 0, 0)),
    (1, (1, 1, 0)),
    (2, (0, 1, 1)),
    (2, (0, 0, 1)),
    (1, (0, 1, 0)),
    (2, (1, 1, 1)),
]


def response():
    counts = np.zeros((2, 3, 3), dtype=int)
    for colour, sel in PEOPLE:
        for i, s in enumerate(sel):
            counts[colour - 1, i, 0 if s else 1] += 1
    subrefs = [{"alias": a, "name": n} for _, _, a, n in ITEMS]
    refs = {"alias": "pets", "name": "Pets", "subreferences": subrefs}
    return {
        "result": {
            "dimensions": [
                {
                    "references": {"alias": "colour", "name": "Colour"},
                    "type": {
                        "class": "categorical",
                        "categories": [{"id": i, "name": n, "missing": False, "numeric_value": None} for i, n in CATS],
                    },
                },
                {
                    "references": refs,
                    "type": {
                        "class": "enum",
                        "subtype": {"class": "variable"},
                        "elements": [
                            {"id": eid, "missing": False, "value": {"derived": False, "id": svid, "references": {"alias": a, "name": n}}}
                            for eid, svid, a, n in ITEMS
                        ],
                    },
                },
                {
                    "references": copy.deepcopy(refs),
                    "type": {
                        "class": "categorical",
                        "subvariables": [svid for _, svid, _, _ in ITEMS],
                        "categories": [
                            {"id": 1, "name": "Selected", "missing": False, "numeric_value": 1, "selected": True},
                            {"id": 0, "name": "Other", "missing": False, "numeric_value": 0},
                            {"id": -1, "name": "No Data", "missing": True, "numeric_value": None},
                        ],
                    },
                },
            ],
            "counts": counts.flatten().tolist(),
            "measures": {"count": {"data": counts.flatten().tolist(), "metadata": {"type": {"class": "numeric"}}, "n_missing": 0}},
            "n": len(PEOPLE),
            "missing": 0,
            "element": "crunch:cube",
        }
    }


def selected(colour, item_idx):
    return sum(1 for c, sel in PEOPLE if c == colour and sel[item_idx])


# ---------------------------------------------------------------- first principles
# item "cat" is hidden AND renamed, whatever spelling carries which part
expected_labels = ["Dog", "Bird"]
expected_counts = [[selected(c, 0), selected(c, 2)] for c, _ in CATS]

# every spelling of item "cat"
SPELLINGS = ["cat", "0001", "2", 2]

bad = False
# --- reference: a single entry carrying both parts (any spelling) -------------------
for sp in SPELLINGS:
    tr = {"columns_dimension": {"elements": {sp: {"hide": True, "name": "CAT"}}}}
    s = Cube(response(), transforms=tr).partitions[0]
    ok = s.column_labels.tolist() == expected_labels and s.counts.tolist() == expected_counts
    print("single entry %-8r -> %s %s" % (sp, s.column_labels.tolist(), "ok" if ok else "WRONG"))
    bad = bad or not ok

# --- the two parts under two spellings of the same item, in both key orders ----------
for a, b in itertools.permutations(SPELLINGS, 2):
    if str(a) == str(b):
        continue
    for first in ("hide", "name"):
        parts = {"hide": {"hide": True}, "name": {"name": "CAT"}}
        if first == "hide":
            elements = {a: parts["hide"], b: parts["name"]}
        else:
            elements = {a: parts["name"], b: parts["hide"]}
        tr = {"columns_dimension": {"elements": elements}}
        s = Cube(response(), transforms=tr).partitions[0]
        labels = s.column_labels.tolist()
        ok = labels == expected_labels and s.counts.tolist() == expected_counts
        if not ok:
            print("elements=%-45r -> %s  <-- 'cat' was asked hidden" % (elements, labels))
        bad = bad or not ok

sys.exit(1 if bad else 0)
