"""rows_scale_median flips between 1, 2 and 3 on a 1e-16 rounding residue of the weights.

CAT x CAT, the two columns carry the numeric values 1 and 3.  In every row below the
respondents split exactly half / half (by weight) between the two columns, the weighted
counts being the integers 1 | 1 (resp. 3 | 3), so the scale median of each of these rows is
(1 + 3) / 2 = 2 - and the library agrees as long as the weights are exactly representable
(row "plain": one respondent of weight 1.0 on each side).

When the left half is made of respondents weighing 0.1 (10 x 0.1 = 1) or 0.05 (20 x 0.05 = 1)
the weighted count the response carries is 0.9999999999999999 resp. 1.0000000000000002
(ordinary float summation, as any back-end does) and the library's exact test
`cumulative_prop[median_idx] == 0.5` misses the tie: it answers 3.0 for one row and 1.0 for
the other.  rows_scale_mean is 2.0 for all three rows.
"""
import sys
from fractions import Fraction as F

src = "/repo/src"
sys.path.insert(0, src)
import cr  # noqa: E402

cr.__path__ = [src + "/cr"]

import numpy as np  # noqa: E402
from cr.cube.cube import Cube  # noqa: E402

COL_VALUES = [1, 3]
# respondents: (row, column, weight as the decimal the survey weighting produced)
RESP = (
    [(0, 0, "1.0"), (0, 1, "1.0")]  # row 0 "plain"
    + [(1, 0, "0.1")] * 10 + [(1, 1, "1.0")]  # row 1 "tenths"
    + [(2, 0, "0.05")] * 20 + [(2, 1, "1.0")]  # row 2 "twentieths"
)
NROWS, NCOLS = 3, 2

# ---- response: what a back-end summing float weights delivers ---------------------------
counts = [[0] * NCOLS for _ in range(NROWS)]
wcounts = [[0.0] * NCOLS for _ in range(NROWS)]
for r, c, w in RESP:
    counts[r][c] += 1
    wcounts[r][c] += float(w)


def cat_dim(alias, n, values=None):
    return {
        "type": {
            "class": "categorical",
            "ordinal": False,
            "categories": [
                {"id": i + 1, "name": "%s%d" % (alias, i + 1), "missing": False, "numeric_value": values[i] if values else None}
                for i in range(n)
            ],
        },
        "references": {"alias": alias, "name": alias},
        "derived": False,
    }


response = {
    "result": {
        "n": len(RESP),
        "counts": [v for row in counts for v in row],
        "dimensions": [cat_dim("r", NROWS), cat_dim("c", NCOLS, COL_VALUES)],
        "measures": {
            "count": {
                "metadata": {"derived": True, "references": {}, "type": {"class": "numeric", "integer": False, "missing_reasons": {"No Data": -1}, "missing_rules": {}}},
                "data": [v for row in wcounts for v in row],
                "n_missing": 0,
            }
        },
        "missing": 0,
        "element": "crunch:cube",
    }
}
slice_ = Cube(response).partitions[0]
print("weighted counts   :", slice_.counts.tolist())
print("rows_scale_mean   :", slice_.rows_scale_mean.tolist())
print("rows_scale_median :", slice_.rows_scale_median.tolist())


# ---- first principles: weighted median of the respondents' numeric values ------------------
def weighted_median(row):
    items = sorted((COL_VALUES[c], F(w)) for r, c, w in RESP if r == row)
    total = sum(w for _, w in items)
    acc = F(0)
    for k, (v, w) in enumerate(items):
        acc += w
        if acc * 2 == total:  # exactly half below: mean with the next value
            return (v + items[k + 1][0]) / 2
        if acc * 2 > total:
            return float(v)


bad = False
for row in range(NROWS):
    exp = weighted_median(row)
    got = float(slice_.rows_scale_median[row])
    if got != exp:
        bad = True
        print("row %d: rows_scale_median = %s, expected %s" % (row, got, exp))
sys.exit(1 if bad else 0)
