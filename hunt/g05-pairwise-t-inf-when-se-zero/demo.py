"""Pairwise column t-test: +-inf statistic and p = 0.0 when the standard error is zero.

CAT x CAT, unweighted, four respondents:

            col A   col B
    row 1     2       0
    row 2     0       2

Column proportions in row 1 are p_A = 1 and p_B = 0, so the standard error of the
difference, sqrt(p_A(1-p_A)/n_A + p_B(1-p_B)/n_B), is exactly 0 and

    t = (p_B - p_A) / 0

is undefined: it has to surface as NaN (and nothing may be flagged significant on the
strength of four respondents).  The library reports t = -inf / +inf, p = 0.0 and lists the
columns in each other's pairwise index sets at every alpha.
"""
import math
import sys

src = "/repo/src"
sys.path.insert(0, src)
import cr  # noqa: E402

cr.__path__ = [src + "/cr"]

import numpy as np  # noqa: E402
from cr.cube.cube import Cube  # noqa: E402

# respondent-level data: (row answer, column answer)
RESPONDENTS = [(0, 0), (0, 0), (1, 1), (1, 1)]
NROWS = NCOLS = 2


def cat_dim(alias, n):
    return {
        "type": {
            "class": "categorical",
            "ordinal": False,
            "categories": [{"id": i + 1, "name": "%s%d" % (alias, i + 1), "missing": False, "numeric_value": None} for i in range(n)]
            + [{"id": -1, "name": "No Data", "missing": True, "numeric_value": None}],
        },
        "references": {"alias": alias, "name": alias},
        "derived": False,
    }


counts = [[0] * (NCOLS + 1) for _ in range(NROWS + 1)]
for r, c in RESPONDENTS:
    counts[r][c] += 1
flat = [x for row in counts for x in row]
response = {
    "result": {
        "n": len(RESPONDENTS),
        "counts": flat,
        "dimensions": [cat_dim("row", NROWS), cat_dim("col", NCOLS)],
        "measures": {
            "count": {
                "metadata": {"derived": True, "references": {}, "type": {"class": "numeric", "integer": True, "missing_reasons": {"No Data": -1}, "missing_rules": {}}},
                "data": flat,
                "n_missing": 0,
            }
        },
        "missing": 0,
        "element": "crunch:cube",
    }
}
transforms = {"pairwise_indices": {"alpha": [0.05], "only_larger": False}}
slice_ = Cube(response, transforms=transforms).partitions[0]


# --- first principles ---------------------------------------------------------
def expected_t(row, a, b):
    """t of column b against selected column a in `row`, NaN where undefined."""
    n_a = sum(1 for _, c in RESPONDENTS if c == a)
    n_b = sum(1 for _, c in RESPONDENTS if c == b)
    p_a = sum(1 for r, c in RESPONDENTS if c == a and r == row) / n_a
    p_b = sum(1 for r, c in RESPONDENTS if c == b and r == row) / n_b
    se2 = p_a * (1 - p_a) / n_a + p_b * (1 - p_b) / n_b
    if se2 == 0:
        return float("nan")  # x / 0 is undefined
    return (p_b - p_a) / math.sqrt(se2)


bad = False
for a in range(NCOLS):
    t = slice_.pairwise_significance_t_stats(a)
    p = slice_.pairwise_significance_p_vals(a)
    for row in range(NROWS):
        for b in range(NCOLS):
            exp = expected_t(row, a, b)
            got_t, got_p = float(t[row, b]), float(p[row, b])
            ok = (math.isnan(exp) and math.isnan(got_t)) or got_t == exp
            if math.isinf(got_t) or not ok:
                bad = True
                print("row %d, column %d vs selected %d: t = %s, p = %s   expected t = %s (p = nan)" % (row, b, a, got_t, got_p, exp))

idx = slice_.pairwise_indices
print("pairwise_indices (alpha=0.05):", idx.tolist())
if any(len(cell) for cell in idx.ravel()):
    print("  -> columns flagged significantly different with 2 respondents each; expected all empty")
    bad = True

sys.exit(1 if bad else 0)
