"""The row name/alias/label synthesized for a numeric-summary ("inflated") cube depends on PYTHONHASHSEED.

A tab-book whose rows variable is a numeric summary (mean, std-dev, valid count of an
expression, so the measures' `references` are empty - exactly like the fixtures
econ-mean-no-dims.json and cat-means-and-counts.json) arrives without a rows dimension.
CubeSet pads every cube with a one-row dimension whose alias / name / single row label is
"the combination of all the numeric measures in the response".

C18 says the reported values depend only on (response, transforms, population, min_base)
and equal a fresh evaluation on pristine copies.  So a fresh evaluation of the very same
arguments in another interpreter process must report the same labels.  It does not: the
combination is joined in the iteration order of a frozenset of enum members, which
follows the per-process string-hash randomization.

The same root cause shows with unmodified fixtures (second and third case below): the
metadata (name, sub-variable labels) of a hash-order-dependent "first" numeric measure is used.

The script evaluates the same (literal) arguments in child processes that differ only in
PYTHONHASHSEED and exits 1 when they disagree.
"""
import json
import subprocess
import sys

CHILD = r'''
import sys; src = "/repo/src"; sys.path.insert(0, src); import cr; cr.__path__ = [src + "/cr"]
import json
from cr.cube.cube import Cube, CubeSet


def md():
    # --- metadata of a measure over an expression: no references (as in econ-mean-no-dims.json)
    return {
        "references": {},
        "derived": True,
        "type": {"class": "numeric", "integer": False, "missing_rules": {},
                 "missing_reasons": {"No Data": -1}},
    }


# --- respondent-level data: 10 respondents, numeric answer x, group g (6 in "a", 4 in "b")
summary = {"result": {
    "dimensions": [], "counts": [10], "n": 10,
    "measures": {
        "mean": {"data": [3.5], "n_missing": 0, "metadata": md()},
        "stddev": {"data": [1.5], "n_missing": 0, "metadata": md()},
        "valid_count_unweighted": {"data": [10], "n_missing": 0, "metadata": md()},
    }}}
by_group = {"result": {
    "dimensions": [{
        "references": {"alias": "g", "name": "G"},
        "type": {"class": "categorical", "ordinal": False, "categories": [
            {"id": 1, "name": "a", "missing": False, "numeric_value": None},
            {"id": 2, "name": "b", "missing": False, "numeric_value": None},
            {"id": -1, "name": "No Data", "missing": True, "numeric_value": None}]}}],
    "counts": [6, 4, 0], "n": 10,
    "measures": {
        "mean": {"data": [3.0, 4.25, {"?": -8}], "n_missing": 0, "metadata": md()},
        "stddev": {"data": [1.0, 2.0, {"?": -8}], "n_missing": 0, "metadata": md()},
        "valid_count_unweighted": {"data": [6, 4, 0], "n_missing": 0, "metadata": md()},
    }}}

cube_set = CubeSet([summary, by_group], [{}, {}], 1000, 0)
strand, slice_ = cube_set.partition_sets[0]

# --- second case, two unmodified fixtures: the numeric summary econ-mean-no-dims.json as
# --- rows cube and mr-x-mr-mean.json as column cube. In the latter only the `mean`
# --- measure carries references (alias "age"), `valid_count_unweighted` has none, and
# --- which of the two provides the name of the padded dimension follows the hash order.
F = "/repo/tests/fixtures/"
fixture_set = CubeSet(
    [json.load(open(F + "econ-mean-no-dims.json")), json.load(open(F + "mr-x-mr-mean.json"))],
    [{}, {}], 1000, 0,
)
fixture_slice = fixture_set.partition_sets[0][1]

# --- third case, simplest: a single unmodified numeric-array fixture analysed on its own.
# --- Its `mean` measure labels the 4th item "Sotrovimab", its other measures label it
# --- "antibodies (Xevudy)"; which label the strand reports follows the hash order.
numarr_strand = Cube(
    json.load(open(F + "numeric_arrays/num-arr-sums-with-nan-values.json"))
).partitions[0]
print(json.dumps({
    "num-array fixture: strand.row_labels[3]": numarr_strand.row_labels.tolist()[3],
    "fixtures: slice.table_name": fixture_slice.table_name,
    "cube_set.name": cube_set.name,
    "strand.rows_dimension_name": strand.rows_dimension_name,
    "strand.rows_dimension_alias": strand.rows_dimension_alias,
    "strand.row_labels": strand.row_labels.tolist(),
    "slice.rows_dimension_name": slice_.rows_dimension_name,
    "slice.row_labels": slice_.row_labels.tolist(),
    # --- control: the numbers themselves are stable
    "strand.means": strand.means.tolist(),
    "slice.means": slice_.means.tolist(),
}, sort_keys=True))
'''


def evaluate(hash_seed):
    out = subprocess.run(
        [sys.executable, "-c", CHILD],
        env={"PYTHONHASHSEED": str(hash_seed), "PATH": "/usr/bin:/bin"},
        capture_output=True, text=True, check=True,
    ).stdout
    return json.loads(out)


def main():
    results = {seed: evaluate(seed) for seed in range(8)}
    reference = results[0]
    # --- first principles: identical arguments -> identical report, whatever the process
    differing = sorted(
        key for key in reference if any(r[key] != reference[key] for r in results.values())
    )
    for seed, r in results.items():
        print("PYTHONHASHSEED=%d  rows_dimension_name=%r  fixtures table_name=%r  "
              "num-array fixture row_labels[3]=%r" % (
                  seed, r["strand.rows_dimension_name"], r["fixtures: slice.table_name"],
                  r["num-array fixture: strand.row_labels[3]"]))
    if differing:
        print("\nVIOLATION (C18): the same response/transforms/population/min_base give "
              "different values for: %s" % ", ".join(differing))
        return 1
    print("\nOK: every process reports the same values")
    return 0


if __name__ == "__main__":
    sys.exit(main())
