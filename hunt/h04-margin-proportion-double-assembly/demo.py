"""rows_margin_proportion / columns_margin_proportion of an MR-crossed slice are assembled twice.

CAT (3 categories) x MR (2 items).  `rows_margin_proportion` is 2-D here (each cell has its own
weighted base): cell (i, j) = N(row i, item j answered) / N(item j answered).

C05: reordering / hiding rows must only re-index that matrix by `row_order()`.
The library instead (1) mis-orders it under an explicit order, (2) raises IndexError as soon as a
row is hidden, and (3) computes a subtotal row from the wrong addends.
"""
import sys

src = "/repo/src"
sys.path.insert(0, src)
import cr  # noqa: E402

cr.__path__ = [src + "/cr"]

import numpy as np  # noqa: E402

from cr.cube.cube import Cube  # noqa: E402

# ---- raw data: counts[row category][MR item][selected, not-selected, missing] -----------------
COUNTS = np.array(
    [
        [[10, 20, 0], [5, 5, 20]],  # category 1
        [[1, 9, 0], [2, 8, 0]],  # category 2
        [[30, 10, 0], [20, 40, 0]],  # category 3
    ]
)


def response():
    subrefs = [
        {"alias": "m_1", "name": "item 1", "description": None},
        {"alias": "m_2", "name": "item 2", "description": None},
    ]
    mr_refs = {"alias": "m", "name": "M", "description": "m", "subreferences": subrefs}
    return {
        "result": {
            "dimensions": [
                {
                    "references": {"alias": "a", "name": "A", "description": "a"},
                    "type": {
                        "class": "categorical",
                        "ordinal": False,
                        "categories": [
                            {"id": 1, "name": "a1", "missing": False, "numeric_value": None},
                            {"id": 2, "name": "a2", "missing": False, "numeric_value": None},
                            {"id": 3, "name": "a3", "missing": False, "numeric_value": None},
                        ],
                    },
                },
                {
                    "derived": True,
                    "references": mr_refs,
                    "type": {
                        "class": "enum",
                        "subtype": {"class": "variable"},
                        "elements": [
                            {
                                "id": k + 1,
                                "missing": False,
                                "value": {"derived": False, "id": "%04d" % k, "references": subrefs[k]},
                            }
                            for k in range(2)
                        ],
                    },
                },
                {
                    "derived": True,
                    "references": mr_refs,
                    "type": {
                        "class": "categorical",
                        "ordinal": False,
                        "subvariables": ["0000", "0001"],
                        "categories": [
                            {"id": 1, "name": "Selected", "missing": False, "numeric_value": 1, "selected": True},
                            {"id": 0, "name": "Other", "missing": False, "numeric_value": 0},
                            {"id": -1, "name": "No Data", "missing": True, "numeric_value": None},
                        ],
                    },
                },
            ],
            "counts": COUNTS.ravel().tolist(),
            "measures": {
                "count": {"data": [float(x) for x in COUNTS.ravel()], "n_missing": 0, "metadata": {}}
            },
            "n": int(COUNTS.sum()),
            "missing": 0,
            "element": "crunch:cube",
        }
    }


# ---- first-principles expectation (payload order) -------------------------------------------
answered = COUNTS[:, :, :2].sum(axis=2).astype(float)  # (row, item): selected + not-selected
BASE = answered / answered.sum(axis=0)  # rows margin / table base, per cell


def run(transforms):
    slice_ = Cube(response(), transforms=transforms).partitions[0]
    order = [int(i) for i in slice_.row_order()]
    labels = slice_.row_labels.tolist()
    try:
        got = np.asarray(slice_.rows_margin_proportion)
    except Exception as e:  # noqa
        got = e
    return order, labels, got


failed = False

# --- 1. explicit order 3, 1, 2 --------------------------------------------------------------
order, labels, got = run(
    {"rows_dimension": {"order": {"type": "explicit", "element_ids": [3, 1, 2]}}}
)
expected = BASE[order]
print("1) explicit order; row_order() =", order, "labels =", labels)
print("   expected rows_margin_proportion:\n", expected)
print("   library:\n", got)
if isinstance(got, Exception) or got.shape != expected.shape or not np.allclose(got, expected):
    print("   -> VIOLATION: rows are not in the reported row order")
    failed = True

# --- 2. hide one row -------------------------------------------------------------------------
order, labels, got = run({"rows_dimension": {"elements": {"1": {"hide": True}}}})
expected = BASE[order]
print("2) row 1 hidden; row_order() =", order)
print("   expected:\n", expected)
print("   library:", repr(got))
if isinstance(got, Exception) or got.shape != expected.shape or not np.allclose(got, expected):
    print("   -> VIOLATION: crash / wrong extent when a row is hidden")
    failed = True

# --- 3. one subtotal (a2 + a3) anchored on top, nothing else ---------------------------------
order, labels, got = run(
    {
        "rows_dimension": {
            "insertions": [
                {"function": "subtotal", "name": "a2+a3", "id": 1, "anchor": "top", "args": [2, 3]}
            ]
        }
    }
)
full = np.vstack([BASE, BASE[1] + BASE[2]])  # base rows then the subtotal (idx -1)
expected = full[order]
print("3) top-anchored subtotal; row_order() =", order, "labels =", labels)
print("   expected:\n", expected)
print("   library:\n", got)
if isinstance(got, Exception) or got.shape != expected.shape or not np.allclose(got, expected):
    print("   -> VIOLATION: subtotal row is not the sum of its addends")
    failed = True

sys.exit(1 if failed else 0)
