"""column_index of a numeric array grouped by two categorical variables (a 3-D cube).

The cube has one partition per array item; partition k is the rows x columns analysis of the
respondents with a valid value for item k.  Its column index must be
    100 * column proportion / unconditional row share
(the row share being taken over all those respondents, whatever their column answer).
The library raises IndexError (or returns values taken from the wrong axis).
"""
import sys

src = "/repo/src"
sys.path.insert(0, src)
import cr  # noqa

cr.__path__ = [src + "/cr"]

import numpy as np
from cr.cube.cube import Cube

# ---- respondent level data: (row answer, column answer, item-1 value, item-2 value) -------
# rows: categories 1, 2 valid, 9 missing; columns: categories 1, 2, 3 valid, 9 missing
NA = None
RESPONDENTS = [
    (1, 1, 5.0, 1.0),
    (1, 1, 3.0, NA),
    (1, 2, 4.0, 2.0),
    (1, 3, NA, 2.0),
    (1, 9, 2.0, 7.0),
    (1, 9, 1.0, NA),
    (2, 1, 6.0, 3.0),
    (2, 2, 2.0, 3.0),
    (2, 2, NA, 4.0),
    (2, 3, 7.0, 1.0),
    (2, 3, 1.0, 5.0),
    (2, 9, NA, 6.0),
    (9, 1, 3.0, 3.0),
    (9, 3, 2.0, NA),
]
ROW_IDS, COL_IDS = [1, 2, 9], [1, 2, 3, 9]
ROW_VALID, COL_VALID = [1, 2], [1, 2, 3]
N_ITEMS = 2


def cat_dim(alias, ids, missing_id):
    return {
        "references": {"alias": alias, "name": alias},
        "type": {
            "class": "categorical",
            "ordinal": False,
            "categories": [
                {"id": i, "name": "%s%d" % (alias, i), "missing": i == missing_id, "numeric_value": None}
                for i in ids
            ],
        },
    }


def build_response():
    """zz9 layout of a numeric array grouped by rows x columns: the measures have shape
    (rows, columns, items); `counts` has shape (rows, columns)."""
    shape = (len(ROW_IDS), len(COL_IDS))
    counts = np.zeros(shape)
    valid = np.zeros(shape + (N_ITEMS,))
    sums = np.zeros(shape + (N_ITEMS,))
    for r, c, *xs in RESPONDENTS:
        i, j = ROW_IDS.index(r), COL_IDS.index(c)
        counts[i, j] += 1
        for k, x in enumerate(xs):
            if x is not None:
                valid[i, j, k] += 1
                sums[i, j, k] += x
    with np.errstate(all="ignore"):
        means = sums / valid
    metadata = {
        "derived": True,
        "references": {
            "alias": "ratings",
            "name": "Ratings",
            "subreferences": [{"alias": "r1", "name": "R1"}, {"alias": "r2", "name": "R2"}],
        },
        "type": {"class": "numeric", "subvariables": ["0001", "0002"]},
    }
    return {
        "result": {
            "dimensions": [cat_dim("row", ROW_IDS, 9), cat_dim("col", COL_IDS, 9)],
            "counts": [int(x) for x in counts.ravel()],
            "measures": {
                "mean": {
                    "data": [{"?": -8} if np.isnan(m) else float(m) for m in means.ravel()],
                    "metadata": metadata,
                    "n_missing": 0,
                },
                "valid_count_unweighted": {
                    "data": [int(x) for x in valid.ravel()],
                    "metadata": metadata,
                    "n_missing": 0,
                },
            },
            "n": len(RESPONDENTS),
        }
    }


def expected_column_index(k):
    """First principles, from the respondents with a valid value for item k."""
    resp = [(r, c) for r, c, *xs in RESPONDENTS if xs[k] is not None]
    out = np.full((len(ROW_VALID), len(COL_VALID)), np.nan)
    # --- unconditional row share: over respondents with a valid row answer, any column answer
    n_rows_valid = sum(1 for r, c in resp if r in ROW_VALID)
    for i, rid in enumerate(ROW_VALID):
        row_share = sum(1 for r, c in resp if r == rid) / n_rows_valid
        for j, cid in enumerate(COL_VALID):
            col_base = sum(1 for r, c in resp if c == cid and r in ROW_VALID)
            cell = sum(1 for r, c in resp if r == rid and c == cid)
            if col_base and row_share:
                out[i, j] = 100 * (cell / col_base) / row_share
    return out


def main():
    cube = Cube(build_response())
    failed = False
    print("dimension types:", [t.name for t in cube.dimension_types])
    partitions = cube.partitions
    if len(partitions) != N_ITEMS:
        print("expected %d partitions, got %d" % (N_ITEMS, len(partitions)))
        return 1
    for k, part in enumerate(partitions):
        exp = expected_column_index(k)
        # --- sanity: the counts of the partition are the valid counts of the item
        print("item %d counts:\n%s" % (k, part.counts))
        try:
            got = part.column_index
        except Exception as e:  # noqa
            print("item %d: column_index raised %r; expected\n%s" % (k, e, exp))
            failed = True
            continue
        if got.shape != exp.shape or not np.allclose(got, exp, equal_nan=True):
            print("item %d: column_index differs\n got:\n%s\n expected:\n%s" % (k, got, exp))
            failed = True
        else:
            print("item %d: column_index ok" % k)
    return 1 if failed else 0


if __name__ == "__main__":
    sys.exit(main())
