"""Subtotal insertions whose optional members are JSON null raise instead of being read as "absent".

  * "kwargs": null                      (old-style insertion that only uses "args")
  * "kwargs": {"positive": [...], "negative": null}   (a plain subtotal: no subtrahends)
  * "args": null next to "kwargs"       (new-style insertion, negative-only)
  * "insertions": null                  (analysis transforms or variable view), view "transform": null

The library already ignores non-dict entries, unknown functions, insertions without name/anchor and
stale ids; `{}` / `[]` / omitted all work.  Expected values are computed from the literal table.
"""
import sys; src = "/repo/src"; sys.path.insert(0, src); import cr; cr.__path__ = [src + "/cr"]
import copy
import json
import numpy as np
from cr.cube.cube import Cube


def cat_dim(alias, cats, view="absent"):
    refs = {"alias": alias, "name": alias}
    if view != "absent":
        refs["view"] = view
    return {
        "type": {
            "class": "categorical",
            "ordinal": False,
            "categories": [
                {"id": i, "name": n, "missing": False, "numeric_value": None}
                for i, n in cats
            ]
            + [{"id": -1, "name": "No Data", "missing": True, "numeric_value": None}],
        },
        "references": refs,
    }


ROWS = [(1, "a"), (2, "b"), (3, "c")]
COLS = [(1, "x"), (2, "y")]
TABLE = np.array([[10, 20], [30, 5], [7, 8]], dtype=float)


def response(row_view="absent"):
    data = []
    for r in TABLE.astype(int).tolist():
        data += list(r) + [0]
    data += [0] * (len(COLS) + 1)
    n = sum(data)
    return {
        "result": {
            "dimensions": [cat_dim("R", ROWS, row_view), cat_dim("C", COLS)],
            "counts": data,
            "measures": {"count": {"data": data, "n_missing": 0, "metadata": {}}},
            "n": n,
            "missing": 0,
            "unfiltered": {"unweighted_n": n, "weighted_n": n},
            "filtered": {"unweighted_n": n, "weighted_n": n},
        }
    }


def expected(positive, negative, anchor_top=True):
    """labels, counts and row-proportions of the table with one subtotal on top."""
    idx = {i: k for k, (i, _) in enumerate(ROWS)}
    sub = sum(TABLE[idx[i]] for i in positive) - sum(TABLE[idx[i]] for i in negative)
    counts = np.vstack([sub, TABLE])
    labels = ["S"] + [n for _, n in ROWS]
    return labels, counts


PLAIN = ([n for _, n in ROWS], TABLE)

ins = lambda **kw: dict({"function": "subtotal", "name": "S", "anchor": "top"}, **kw)  # noqa

CASES = [
    # description, insertion list, expected
    ("control args only", [ins(args=[1, 2])], expected([1, 2], [])),
    ('"kwargs": null', [ins(args=[1, 2], kwargs=None)], expected([1, 2], [])),
    ('"negative": null', [ins(kwargs={"positive": [1, 2], "negative": None})], expected([1, 2], [])),
    ('"args": null, negative only', [ins(args=None, kwargs={"negative": [3]})], expected([], [3])),
    ('"insertions": null', None, PLAIN),
]

bad = 0


def check(desc, make_slice, exp):
    global bad
    exp_labels, exp_counts = exp
    try:
        s = make_slice()
        labels = s.row_labels.tolist()
        counts = s.counts
        ok = labels == exp_labels and counts.shape == exp_counts.shape and np.allclose(counts, exp_counts)
        print("%-6s %-45s labels=%s first column=%s" % ("ok" if ok else "WRONG", desc, labels, counts[:, 0].tolist()))
        bad += not ok
    except Exception as e:  # noqa
        bad += 1
        print("RAISES %-45s %s: %s   (expected labels %s, first column %s)"
              % (desc, type(e).__name__, e, exp_labels, exp_counts[:, 0].tolist()))


for desc, insertions, exp in CASES:
    # --- defined in the analysis transforms
    check("analysis: " + desc,
          lambda: Cube(response(), transforms={"rows_dimension": {"insertions": copy.deepcopy(insertions)}}).partitions[0],
          exp)
    # --- defined on the variable (view)
    check("variable: " + desc,
          lambda: Cube(response({"transform": {"insertions": copy.deepcopy(insertions)}})).partitions[0],
          exp)

check('variable: view {"transform": null}', lambda: Cube(response({"transform": None})).partitions[0], PLAIN)
check('control: view null', lambda: Cube(response(None)).partitions[0], PLAIN)

sys.exit(1 if bad else 0)
