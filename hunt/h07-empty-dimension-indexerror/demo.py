"""A matrix dimension with no valid (non-missing) element crashes the proportion
variance / std-err / MoE measures and the residual z-scores / p-values with IndexError.

Inputs:
  1. tests/fixtures/cat-x-cat-all-missing-row-elements.json, UNMODIFIED (every row category
     is missing -> the slice has 0 rows and 2 columns). The library's own test-suite
     "accommodates an all missing element rows dimension" for row_proportions.
  2. tests/fixtures/cat-x-cat.json with every category of the *columns* variable flagged
     missing (the mirror image: 2 rows, 0 columns).

Expected from first principles: a table without cells has nothing to estimate, so every
cell-wise measure is simply the empty (n_rows, n_cols) array (exactly what `.counts` and,
for input 1, `.row_proportions` already return). No measure may raise.
"""
import sys; src = "/repo/src"; sys.path.insert(0, src); import cr; cr.__path__ = [src + "/cr"]
import copy, json, warnings
import numpy as np
from cr.cube.cube import Cube

warnings.filterwarnings("ignore")
FIX = "/repo/tests/fixtures/"

MEASURES = (
    "row_proportion_variances", "column_proportion_variances", "table_proportion_variances",
    "row_std_dev", "column_std_dev", "table_std_dev",
    "row_std_err", "column_std_err", "table_std_err",
    "row_proportions_moe", "column_proportions_moe", "table_proportions_moe",
    "zscores", "pvals",
)


def check(title, response):
    slice_ = Cube(response).partitions[0]
    shape = np.asarray(slice_.counts).shape  # counts work: (0, 2) / (2, 0)
    print(f"{title}: counts shape {shape}")
    failures = 0
    for name in MEASURES:
        try:
            value = np.asarray(getattr(slice_, name))
        except Exception as e:  # noqa
            print(f"   {name}: expected empty array of shape {shape}, got {type(e).__name__}: {e}")
            failures += 1
            continue
        if value.shape != shape:
            print(f"   {name}: expected shape {shape}, got {value.shape}")
            failures += 1
    return failures


# --- 1. all row categories missing (fixture as-is) ---
with open(FIX + "cat-x-cat-all-missing-row-elements.json") as f:
    no_rows = json.load(f)

# --- 2. all column categories missing ---
with open(FIX + "cat-x-cat.json") as f:
    no_cols = json.load(f)
no_cols = copy.deepcopy(no_cols)
for cat in no_cols["result"]["dimensions"][1]["type"]["categories"]:
    cat["missing"] = True

n_failures = check("no valid row", no_rows) + check("no valid column", no_cols)
print("violations:", n_failures)
sys.exit(1 if n_failures else 0)
