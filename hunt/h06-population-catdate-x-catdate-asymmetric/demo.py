"""C10: population estimates of a CAT_DATE x CAT_DATE slice are not transposition invariant.

Population estimates are a direction-free measure: the estimate for the cell (a_i, b_j) cannot depend on
whether variable A is laid out on the rows or on the columns.  For a slice whose two dimensions are both
categorical dates (e.g. survey wave x interview month) the library answers with "share of the row" in either
layout, so the same cell gets two different population counts.
"""
import sys; src = "/repo/src"; sys.path.insert(0, src); import cr; cr.__path__ = [src + "/cr"]

import numpy as np

from cr.cube.cube import Cube

COUNTS = np.array([[10, 30], [20, 40], [30, 70]])  # wave (3) x month (2), unweighted
POPULATION = 1000


def cat_date_dim(alias, n):
    return {
        "references": {"alias": alias, "name": alias.title()},
        "type": {
            "class": "categorical",
            "ordinal": False,
            "categories": [
                {"id": i + 1, "name": "%s %d" % (alias, i + 1), "missing": False, "numeric_value": None,
                 "date": "2021-%02d" % (i + 1)}
                for i in range(n)
            ],
        },
    }


def response(transposed):
    c = COUNTS.T if transposed else COUNTS
    dims = [cat_date_dim("wave", 3), cat_date_dim("month", 2)]
    flat = [int(x) for x in c.reshape(-1)]
    return {
        "query": {},
        "result": {
            "counts": flat,
            "dimensions": dims[::-1] if transposed else dims,
            "measures": {"count": {"data": flat, "n_missing": 0,
                                   "metadata": {"type": {"class": "numeric", "integer": True}}}},
            "n": int(c.sum()), "missing": 0, "element": "crunch:cube",
        },
    }


ab = Cube(response(False), population=POPULATION).partitions[0]
ba = Cube(response(True), population=POPULATION).partitions[0]
assert ab.rows_dimension_type.name == ab.columns_dimension_type.name == "CAT_DATE"
assert np.array_equal(ab.counts, ba.counts.T)

failed = False
for name in ("population_counts", "population_counts_moe", "population_proportions", "population_std_err"):
    x, y = getattr(ab, name), getattr(ba, name).T
    ok = x.shape == y.shape and np.allclose(x, y, equal_nan=True)
    print(("ok    " if ok else "FAIL  ") + name)
    if not ok:
        failed = True
        print("   wave x month      :\n%s\n   (month x wave).T  :\n%s" % (np.round(x, 3), np.round(y, 3)))
sys.exit(1 if failed else 0)
