"""mean / sum / stddev of a numeric array arriving as a nested list: a missing value crashes.

The fixtures numeric_arrays/num-arr-means-no-grouping.json and num-arr-sum-no-grouping.json carry the
measure of an un-grouped numeric array as one nested row (`"data": [[2.5, 25]]`).  When one of the
items has no valid answer zz9 marks it `{"?": -8}`; the library then raises TypeError instead of
reporting NaN for that item (C01: "a value the response marks unavailable surfaces as NaN").  The
`median` measure, which flattens the payload *before* replacing the markers, handles the same payload.
"""
import sys; src = "/repo/src"; sys.path.insert(0, src); import cr; cr.__path__ = [src + "/cr"]
import copy, json
import numpy as np
from cr.cube.cube import Cube

FIX = "/repo/tests/fixtures/numeric_arrays/"
bad = 0
for fixture, measure, prop in (
    ("num-arr-means-no-grouping.json", "mean", "means"),
    ("num-arr-sum-no-grouping.json", "sum", "sums"),
):
    response = json.load(open(FIX + fixture))
    result = response.get("value", response)["result"]
    data = result["measures"][measure]["data"]
    assert data and isinstance(data[0], list), "fixture is expected to carry nested data"
    expected = [float(x) for x in data[0]]
    # --- the second item has no valid answer: unavailable value, valid count 0
    data[0][1] = {"?": -8}
    result["measures"]["valid_count_unweighted"]["data"][1] = 0
    expected[1] = float("nan")
    for name in (measure, "median"):
        # --- same payload offered as `median` to show the sibling measure copes with it
        resp = copy.deepcopy(response)
        res = resp.get("value", resp)["result"]
        if name == "median":
            res["measures"]["median"] = res["measures"].pop(measure)
        strand = Cube(resp).partitions[0]
        try:
            got = getattr(strand, prop if name == measure else "medians")
        except Exception as e:  # noqa
            print("%-34s %-6s -> %s: %s" % (fixture, name, type(e).__name__, e))
            bad += 1
            continue
        ok = np.allclose(got, expected, equal_nan=True)
        print("%-34s %-6s -> %s %s" % (fixture, name, np.asarray(got).tolist(), "ok" if ok else "WRONG, expected %s" % expected))
        bad += 0 if ok else 1
sys.exit(1 if bad else 0)
