"""Cube.valid_counts_summary_range / CubeSet.valid_counts_summary_range collapse the WRONG axes
when a multiple-response dimension precedes a categorical one.

The property sums the unweighted valid counts over every non-array dimension.  It picks the axis
numbers by enumerating the *apparent* dimensions (MR = one dimension) but applies them to the raw
measure array, which still carries the MR selection axis (MR = two axes).  For MR x CAT the CAT
dimension is apparent-axis 1, yet raw axis 1 is the MR selected/other axis, so that one is summed
and the categorical axis is kept.  CAT x MR (same respondents, transposed response) is right, so
the two orientations of one data set disagree.
"""
import sys; src = "/repo/src"; sys.path.insert(0, src); import cr; cr.__path__ = [src + "/cr"]

import itertools
import numpy as np
from cr.cube.cube import Cube, CubeSet

# ---- respondent-level data: (category of A, [item0, item1] of MR B, numeric answer) -------------
# A: 0,1 valid categories, 2 = missing.   MR item: 0 selected, 1 not selected, 2 missing
RESP = [
    (0, (0, 1), 3.0), (0, (0, 0), 1.0), (0, (0, 1), None), (0, (1, 1), 2.0),
    (1, (0, 1), 4.0), (1, (1, 0), 5.0), (1, (1, 0), 2.5), (1, (1, 2), 1.5),
    (1, (0, 0), 0.5), (2, (0, 0), 9.0), (0, (1, 0), 7.0), (1, (1, 1), None),
]
N_ITEMS = 2

CAT_DIM = {
    "references": {"alias": "a", "name": "A"},
    "type": {"class": "categorical", "ordinal": False, "categories": [
        {"id": 1, "name": "a1", "missing": False, "numeric_value": None},
        {"id": 2, "name": "a2", "missing": False, "numeric_value": None},
        {"id": -1, "name": "No Data", "missing": True, "numeric_value": None}]},
}
SUBREFS = [{"alias": "b_%d" % j, "name": "b %d" % j} for j in range(N_ITEMS)]
MR_DIMS = [
    {"references": {"alias": "b", "name": "B", "subreferences": SUBREFS},
     "type": {"class": "enum", "subtype": {"class": "variable"}, "elements": [
         {"id": j + 1, "missing": False, "value": {"id": "000%d" % j, "derived": False, "references": SUBREFS[j]}}
         for j in range(N_ITEMS)]}},
    {"references": {"alias": "b", "name": "B", "subreferences": SUBREFS},
     "type": {"class": "categorical", "ordinal": False, "subvariables": ["0000", "0001"], "categories": [
         {"id": 1, "name": "Selected", "missing": False, "selected": True, "numeric_value": 1},
         {"id": 0, "name": "Other", "missing": False, "numeric_value": 0},
         {"id": -1, "name": "No Data", "missing": True, "numeric_value": None}]}},
]


def tabulate(mr_first):
    """(counts, valid_counts, means) nested over (item, sel, cat) or (cat, item, sel)."""
    shape = (N_ITEMS, 3, 3) if mr_first else (3, N_ITEMS, 3)
    n = np.zeros(shape); nv = np.zeros(shape); s = np.zeros(shape)
    for a, items, x in RESP:
        for j, sel in enumerate(items):
            idx = (j, sel, a) if mr_first else (a, j, sel)
            n[idx] += 1
            if x is not None:
                nv[idx] += 1; s[idx] += x
    return n, nv, s


def response(mr_first):
    n, nv, s = tabulate(mr_first)
    mean = [({"?": -8} if c == 0 else t / c) for t, c in zip(s.ravel(), nv.ravel())]
    return {"result": {
        "dimensions": (MR_DIMS + [CAT_DIM]) if mr_first else ([CAT_DIM] + MR_DIMS),
        "counts": [int(v) for v in n.ravel()],
        "measures": {
            "count": {"data": [int(v) for v in n.ravel()], "n_missing": 0},
            "mean": {"data": mean, "n_missing": 2},
            "valid_count_unweighted": {"data": [int(v) for v in nv.ravel()], "n_missing": 2},
        },
        "n": len(RESP), "missing": 0}}


# ---- expected, from the respondents: the valid counts summed over the (only) non-array dimension A,
# ---- i.e. for every MR item and selection state the number of respondents with a valid A answer
# ---- and a valid numeric answer
summary = np.array([
    [sum(1 for a, items, x in RESP if a != 2 and x is not None and items[j] == sel) for sel in (0, 1)]
    for j in range(N_ITEMS)])
expected = (float(summary.min()), float(summary.max()))

got_cat_x_mr = tuple(float(v) for v in Cube(response(mr_first=False)).valid_counts_summary_range)
got_mr_x_cat = tuple(float(v) for v in Cube(response(mr_first=True)).valid_counts_summary_range)
got_set = tuple(float(v) for v in CubeSet([response(mr_first=True)], [{}], None, 0).valid_counts_summary_range)

print("valid counts summed over A, per (item, selected/other):\n", summary)
print("expected (min, max)            :", expected)
print("CAT x MR  .valid_counts_summary_range:", got_cat_x_mr)
print("MR x CAT  .valid_counts_summary_range:", got_mr_x_cat, "   (CubeSet:", got_set, ")")

bad = got_mr_x_cat != expected or got_cat_x_mr != expected or got_set != expected
if bad:
    print("DEFECT: the same data set gives a different valid-count summary range depending on which "
          "dimension comes first; MR x CAT summed the MR selected/other axis instead of the A axis")
sys.exit(1 if bad else 0)
