"""`"pairwise_indices": null` in the analysis transforms makes every pairwise-index property raise
AttributeError, while `{}`, an omitted key, `{"alpha": null}` and `{"alpha": []}` all mean "defaults"
(alpha = 0.05, only_larger = True).  Expected index sets are computed here with scipy from the table (C13).
"""
import sys; src = "/repo/src"; sys.path.insert(0, src); import cr; cr.__path__ = [src + "/cr"]
import json
import numpy as np
from scipy import stats
from cr.cube.cube import Cube


def cat_dim(alias, cats):
    return {
        "type": {
            "class": "categorical",
            "ordinal": False,
            "categories": [
                {"id": i, "name": n, "missing": False, "numeric_value": None}
                for i, n in cats
            ]
            + [{"id": -1, "name": "No Data", "missing": True, "numeric_value": None}],
        },
        "references": {"alias": alias, "name": alias},
    }


ROWS = [(1, "a"), (2, "b"), (3, "c")]
COLS = [(1, "x"), (2, "y"), (3, "z")]
TABLE = np.array([[40, 20, 10], [30, 35, 15], [10, 25, 60]], dtype=float)


def response():
    data = []
    for r in TABLE.astype(int).tolist():
        data += list(r) + [0]
    data += [0] * (len(COLS) + 1)
    n = sum(data)
    return {
        "result": {
            "dimensions": [cat_dim("R", ROWS), cat_dim("C", COLS)],
            "counts": data,
            "measures": {"count": {"data": data, "n_missing": 0, "metadata": {}}},
            "n": n,
            "missing": 0,
            "unfiltered": {"unweighted_n": n, "weighted_n": n},
            "filtered": {"unweighted_n": n, "weighted_n": n},
        }
    }


def expected_indices(alpha=0.05, only_larger=True):
    n = TABLE.sum(axis=0)
    p = TABLE / n
    out = []
    for i in range(TABLE.shape[0]):
        row = []
        for b in range(TABLE.shape[1]):
            idxs = []
            for a in range(TABLE.shape[1]):
                if a == b:
                    continue
                se = np.sqrt(p[i, a] * (1 - p[i, a]) / n[a] + p[i, b] * (1 - p[i, b]) / n[b])
                t = (p[i, b] - p[i, a]) / se
                pval = 2 * (1 - stats.t.cdf(abs(t), n[a] + n[b] - 2))
                if pval < alpha and (not only_larger or p[i, b] > p[i, a]):
                    idxs.append(a)
            row.append(tuple(idxs))
        out.append(row)
    return out


exp = expected_indices()
bad = 0
for pw in ("omitted", {}, {"alpha": None}, {"alpha": []}, None):
    transforms = {} if pw == "omitted" else {"pairwise_indices": pw}
    try:
        s = Cube(response(), transforms=transforms).partitions[0]
        got = [list(r) for r in s.pairwise_indices.tolist()]
        alt = s.pairwise_indices_alt
        ok = got == exp and alt is None
        print("%-6s pairwise_indices=%-16s -> %s" % ("ok" if ok else "WRONG", json.dumps(pw), got))
        bad += not ok
    except Exception as e:  # noqa
        bad += 1
        print("RAISES pairwise_indices=%-16s -> %s: %s   (expected %s)" % (json.dumps(pw), type(e).__name__, e, exp))

sys.exit(1 if bad else 0)
