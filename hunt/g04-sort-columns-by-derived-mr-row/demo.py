"""Sorting COLUMNS by an opposing MR "insertion" (derived item) row is silently ignored.

A CAT x MR table can be sorted on its rows by the values of a derived MR column
("opposing_insertion", the insertion being the zz9-computed "A or B" item). The exact
transpose - MR x CAT with the mirrored transform on the columns - is not sorted at all:
the columns stay in payload order. (C08: sort by opposing insertion on rows AND columns;
C10: transposing the response and mirroring the transforms transposes the result.)

Exit code 1 when the library violates the property, 0 otherwise.
"""
import sys

src = "/repo/src"
sys.path.insert(0, src)
import cr  # noqa: E402

cr.__path__ = [src + "/cr"]

import numpy as np  # noqa: E402
from cr.cube.cube import Cube  # noqa: E402

# ---------------------------------------------------------------- respondent-level data
# fruit: categorical, ids 1..4 ; pets: MR with items dog, cat + derived "dog or cat"
FRUIT_IDS = [1, 2, 3, 4]
#            fruit  dog  cat      (1 = selected, 0 = not selected)
RESPONDENTS = [
    (1, 1, 0),
    (1, 0, 1),
    (1, 1, 1),
    (1, 0, 0),
    (2, 0, 0),
    (2, 0, 0),
    (2, 1, 0),
    (3, 1, 1),
    (3, 0, 1),
    (3, 1, 0),
    (3, 0, 1),
    (3, 1, 0),
    (4, 0, 1),
    (4, 0, 1),
    (4, 0, 0),
]
ITEMS = ["dog_or_cat", "dog", "cat"]  # payload order: derived item anchored at top


def item_state(resp, item):
    _, dog, cat = resp
    return {"dog_or_cat": int(dog or cat), "dog": dog, "cat": cat}[item]


# counts[fruit, item, (selected, other, missing)]
counts = np.zeros((len(FRUIT_IDS), len(ITEMS), 3), dtype=int)
for r in RESPONDENTS:
    for k, item in enumerate(ITEMS):
        counts[FRUIT_IDS.index(r[0]), k, 0 if item_state(r, item) else 1] += 1

fruit_dim = {
    "derived": False,
    "references": {"alias": "fruit", "name": "Fruit", "description": ""},
    "type": {
        "class": "categorical",
        "ordinal": False,
        "categories": [
            {"id": i, "name": "fruit%d" % i, "missing": False, "numeric_value": None}
            for i in FRUIT_IDS
        ]
        + [{"id": -1, "name": "No Data", "missing": True, "numeric_value": None}],
    },
}
subrefs = [
    {"alias": "dog_or_cat", "name": "dog or cat", "anchor": "top"},
    {"alias": "dog", "name": "dog"},
    {"alias": "cat", "name": "cat"},
]
pets_refs = {
    "alias": "pets",
    "name": "Pets",
    "description": "",
    "is_dichotomous": True,
    "subreferences": subrefs,
    "view": {
        "transform": {
            "insertions": [
                {
                    "function": "any_selected",
                    "name": "dog or cat",
                    "anchor": "top",
                    "id": 1,
                    "kwargs": {"variable": "pets", "subvariable_ids": ["dog", "cat"]},
                }
            ]
        }
    },
}
pets_subvar_dim = {
    "derived": True,
    "references": pets_refs,
    "type": {
        "class": "enum",
        "subtype": {"class": "variable"},
        "elements": [
            {
                "id": 1,
                "missing": False,
                "value": {"derived": True, "id": "dog or cat", "references": subrefs[0]},
            },
            {
                "id": 2,
                "missing": False,
                "value": {"derived": False, "id": "0001", "references": subrefs[1]},
            },
            {
                "id": 3,
                "missing": False,
                "value": {"derived": False, "id": "0002", "references": subrefs[2]},
            },
        ],
    },
}
pets_cat_dim = {
    "derived": True,
    "references": pets_refs,
    "type": {
        "class": "categorical",
        "ordinal": False,
        "subvariables": ["dog or cat", "0001", "0002"],
        "categories": [
            {"id": 1, "name": "Selected", "missing": False, "numeric_value": 1, "selected": True},
            {"id": 0, "name": "Not Selected", "missing": False, "numeric_value": 0},
            {"id": -1, "name": "No Data", "missing": True, "numeric_value": None},
        ],
    },
}


def response(dims, data):
    flat = [int(v) for v in data.flatten()]
    return {
        "result": {
            "counts": flat,
            "dimensions": dims,
            "element": "crunch:cube",
            "measures": {
                "count": {
                    "data": flat,
                    "metadata": {
                        "derived": True,
                        "references": {},
                        "type": {"class": "numeric", "integer": True, "missing_reasons": {"No Data": -1}, "missing_rules": {}},
                    },
                    "n_missing": 0,
                }
            },
            "missing": 0,
            "n": len(RESPONDENTS),
        }
    }


# the CAT axis carries one extra (missing, empty) category
cat_x_mr = np.concatenate([counts, np.zeros((1,) + counts.shape[1:], dtype=int)], axis=0)
resp_cat_x_mr = response([fruit_dim, pets_subvar_dim, pets_cat_dim], cat_x_mr)
resp_mr_x_cat = response(
    [pets_subvar_dim, pets_cat_dim, fruit_dim], np.transpose(cat_x_mr, (1, 2, 0))
)

order = {
    "type": "opposing_insertion",
    "insertion_id": "dog_or_cat",  # the derived item, by alias (1, its element id, behaves the same)
    "measure": "count_weighted",
    "direction": "ascending",
}

# ---------------------------------------------------------------- first-principles expectation
# number of respondents per fruit who selected dog or cat
key = [sum(1 for r in RESPONDENTS if r[0] == f and (r[1] or r[2])) for f in FRUIT_IDS]
assert len(set(key)) == len(key), "no ties in this data set"
expected = [int(i) for i in np.argsort(key)]  # ascending
print("dog-or-cat count per fruit :", key)
print("expected fruit order       :", expected)

# ---------------------------------------------------------------- library
rows_sorted = Cube(resp_cat_x_mr, transforms={"rows_dimension": {"order": order}}).partitions[0]
cols_sorted = Cube(resp_mr_x_cat, transforms={"columns_dimension": {"order": order}}).partitions[0]
got_rows = rows_sorted.row_order().tolist()
got_cols = cols_sorted.column_order().tolist()
print("CAT x MR, rows sorted      :", got_rows, rows_sorted.counts[:, 0].tolist())
print("MR x CAT, columns sorted   :", got_cols, cols_sorted.counts[0, :].tolist())

bad = False
if got_rows != expected:
    print("UNEXPECTED: the rows of CAT x MR are not sorted by the derived column either")
    bad = True
if got_cols != expected:
    print(
        "DEFECT: columns of MR x CAT are NOT sorted by the derived 'dog or cat' row "
        "(payload order returned), although the transposed table sorts its rows by it"
    )
    bad = True
sys.exit(1 if bad else 0)
