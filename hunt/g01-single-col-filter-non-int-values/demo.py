"""Single-column-filter cube of a tab book whose rows variable has float (or binned) values.

A tab book (CubeSet) holds the rows-variable summary cube followed by column cubes.  A column cube
flagged `is_single_col_cube` only lists the values that occur under its filter, so the library
re-aligns ("augments") it with the elements of the summary cube.  Row i of every partition of a
partition set must describe the same element, and the count must be the number of filtered
respondents having that value.

With a numeric rows variable whose values are floats the re-aligned column is all zeros.
"""
import sys

src = "/repo/src"
sys.path.insert(0, src)
import cr  # noqa

cr.__path__ = [src + "/cr"]

import numpy as np
from cr.cube.cube import CubeSet

# respondent-level data: (value of the numeric rows variable or None, passes the filter?)
RESPONDENTS = [
    (1.5, True),
    (1.5, False),
    (2.0, False),
    (2.0, False),
    (2.5, True),
    (2.5, True),
    (2.5, False),
    (None, True),
    (None, False),
]


def enum_cube(respondents, single_col):
    """1-D cube of the variable over `respondents`, listing only values that occur (zz9)."""
    values = sorted({v for v, _ in respondents if v is not None})
    elements = [{"id": i, "value": v, "missing": False} for i, v in enumerate(values)]
    elements.append({"id": -1, "value": {"?": -1}, "missing": True})
    counts = [sum(1 for v, _ in respondents if v == val) for val in values]
    counts.append(sum(1 for v, _ in respondents if v is None))
    result = {
        "counts": counts,
        "measures": {"count": {"data": list(counts), "n_missing": 0, "metadata": {}}},
        "dimensions": [
            {
                "references": {"alias": "rating", "name": "Rating"},
                "type": {
                    "class": "enum",
                    "subtype": {"class": "numeric", "missing_reasons": {"No Data": -1}, "missing_rules": {}},
                    "elements": elements,
                },
            }
        ],
        "n": len(respondents),
    }
    if single_col:
        result["is_single_col_cube"] = True
    return {"result": result}


def main():
    summary = enum_cube(RESPONDENTS, False)
    filtered = enum_cube([r for r in RESPONDENTS if r[1]], True)
    cube_set = CubeSet([summary, filtered], [{}, {}], 1000, 0)
    (partition_set,) = cube_set.partition_sets
    summary_strand, filter_strand = partition_set

    labels = list(summary_strand.row_labels)
    values = sorted({v for v, _ in RESPONDENTS if v is not None})
    expected = np.array([sum(1 for v, f in RESPONDENTS if f and v == val) for val in values], float)

    print("summary rows      :", labels, summary_strand.counts)
    print("filter column rows:", list(filter_strand.row_labels), filter_strand.counts)
    print("expected counts   :", expected)
    ok = (
        list(filter_strand.row_labels) == labels
        and filter_strand.counts.shape == expected.shape
        and np.allclose(filter_strand.counts, expected)
        and np.allclose(filter_strand.unweighted_counts, expected)
    )
    if not ok:
        print("MISMATCH: the single-column-filter partition lost its counts")
        return 1
    return 0


if __name__ == "__main__":
    sys.exit(main())
