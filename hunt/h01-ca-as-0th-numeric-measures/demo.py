"""CA-as-0th strands slice the counts per sub-variable but not the numeric measures.

Tabbook-style CubeSet whose leading cube is a categorical array carrying a mean / sum measure
of a numeric variable (shape of tests/fixtures/ca-subvar-x-ca-cat-mean.json).  Partition set k
must start with a 1-D strand equal to the univariate analysis of sub-variable k: its `.means`
is the mean of the numeric variable among the respondents in each category of sub-variable k.
"""
import sys; src = "/repo/src"; sys.path.insert(0, src); import cr; cr.__path__ = [src + "/cr"]

import itertools
import numpy as np
from cr.cube.cube import Cube, CubeSet

rng = np.random.default_rng(7)
N = 40
CATS = [(1, "Low", False), (2, "Mid", False), (3, "High", False), (-1, "No Data", True)]
SUBVARS = [("0001", "item_a", "Item A"), ("0002", "item_b", "Item B"), ("0003", "item_c", "Item C")]
GENDER = [(1, "M", False), (2, "F", False)]

ca_answers = rng.integers(0, len(CATS), size=(N, len(SUBVARS)))   # category offset per sub-variable
gender = rng.integers(0, len(GENDER), size=N)
y = rng.integers(1, 100, size=N).astype(float)                    # the numeric variable


def categories(cats):
    return [{"id": i, "name": n, "missing": m, "numeric_value": None} for i, n, m in cats]


subrefs = [{"alias": a, "name": n} for _, a, n in SUBVARS]
ca_refs = {"alias": "arr", "name": "Arr", "subreferences": subrefs}
ca_subvar_dim = {
    "references": ca_refs,
    "derived": True,
    "type": {
        "class": "enum",
        "subtype": {"class": "variable"},
        "elements": [
            {"id": i + 1, "missing": False, "value": {"id": sid, "derived": False, "references": {"alias": a, "name": n}}}
            for i, (sid, a, n) in enumerate(SUBVARS)
        ],
    },
}
ca_cat_dim = {
    "references": ca_refs,
    "derived": False,
    "type": {"class": "categorical", "ordinal": False, "subvariables": [s[0] for s in SUBVARS], "categories": categories(CATS)},
}
gender_dim = {
    "references": {"alias": "gender", "name": "Gender"},
    "type": {"class": "categorical", "ordinal": False, "categories": categories(GENDER)},
}


def response(with_gender):
    """zz9-like response: cube_mean / cube_sum of y, by arr (x gender)."""
    shape = (len(SUBVARS), len(CATS)) + ((len(GENDER),) if with_gender else ())
    counts, means, sums = [], [], []
    for cell in itertools.product(*[range(n) for n in shape]):
        mask = ca_answers[:, cell[0]] == cell[1]
        if with_gender:
            mask &= gender == cell[2]
        n = int(mask.sum())
        counts.append(n)
        sums.append(float(y[mask].sum()))
        means.append(float(y[mask].mean()) if n else {"?": -8})
    meta = {"derived": True, "references": {"alias": "y", "name": "Y"}, "type": {"class": "numeric", "integer": False}}
    return {
        "result": {
            "dimensions": [ca_subvar_dim, ca_cat_dim] + ([gender_dim] if with_gender else []),
            "counts": counts,
            "measures": {
                "count": {"data": counts, "n_missing": 0, "metadata": {}},
                "valid_count_unweighted": {"data": counts, "n_missing": 0, "metadata": meta},
                "mean": {"data": means, "n_missing": 0, "metadata": meta},
                "sum": {"data": sums, "n_missing": 0, "metadata": meta},
            },
            "n": N,
            "missing": 0,
        }
    }


cube_set = CubeSet([response(False), response(True)], [{}, {}], None, 0)
partition_sets = cube_set.partition_sets
valid_cats = [i for i, c in enumerate(CATS) if not c[2]]
failed = len(partition_sets) != len(SUBVARS)
print("partition sets:", len(partition_sets), "(expected %d)" % len(SUBVARS))

for k, pset in enumerate(partition_sets):
    strand, slice_ = pset
    masks = [ca_answers[:, k] == c for c in valid_cats]
    exp = {
        "counts": np.array([m.sum() for m in masks], dtype=float),
        "means": np.array([y[m].mean() if m.any() else np.nan for m in masks]),
        "sums": np.array([y[m].sum() for m in masks]),
    }
    print(f"-- sub-variable {k} ({type(strand).__name__}, {strand.table_name!r})")
    for attr, e in exp.items():
        try:
            got = np.asarray(getattr(strand, attr), dtype=float)
            good = got.shape == e.shape and np.allclose(got, e, equal_nan=True)
            print(f"   {attr:6s} expected {np.round(e, 3).tolist()}  got {np.round(got, 3).tolist()}  {'ok' if good else 'WRONG'}")
        except Exception as ex:  # noqa
            good = False
            print(f"   {attr:6s} expected {np.round(e, 3).tolist()}  raised {type(ex).__name__}: {ex}")
        failed |= not good
    # --- the 2-D companion (3-D cube sliced by sub-variable) does get it right ---
    exp2 = np.array([[y[m & (gender == g)].mean() if (m & (gender == g)).any() else np.nan for g in range(len(GENDER))] for m in masks])
    good2 = np.allclose(slice_.means, exp2, equal_nan=True)
    print(f"   (companion slice means {'ok' if good2 else 'WRONG'})")
    failed |= not good2

if failed:
    print("VIOLATION: CA-as-0th strand does not report its sub-variable's numeric measures")
sys.exit(1 if failed else 0)
