"""The name/alias/labels derived from a numeric measure's metadata depend on PYTHONHASHSEED.

`Cube._available_numeric_measures` is `tuple(frozenset & set)`: its order is the hash order of
the CUBE_MEASURE enum members, i.e. of their *names* (str hash, randomised per process).
`_numeric_measure_references`, `_numeric_measure_subvariables` and `inflate()` take item [0] of
(or join) that tuple, so which measure's metadata names the synthesised rows dimension changes
from one interpreter run to the next whenever the numeric measures of the response do not all
carry identical `references` (e.g. tests/fixtures/mr-x-mr-mean.json: `mean` carries
alias 'age', `valid_count_unweighted` carries no references).

Expected (first principles): a result that is a pure function of the response: in every run the
inflated rows dimension is named after the only name the response carries ('Age'), and the
numeric-array rows are labelled with the sub-references the response carries.

Exit 1 if the library output differs between hash seeds / from that expectation, 0 otherwise.
"""
import json
import os
import subprocess
import sys

SRC = os.environ.get("CRCUBE_SRC", "/repo/src")

CHILD = r'''
import sys, json
src = %r
sys.path.insert(0, src); import cr; cr.__path__ = [src + "/cr"]
from cr.cube.cube import Cube, CubeSet

def meas(data, refs, subvars=None):
    typ = {"class": "numeric", "integer": False}
    if subvars:
        typ["subvariables"] = subvars
    return {"data": data, "n_missing": 0,
            "metadata": {"derived": True, "references": refs, "type": typ}}

cats = [{"id": 1, "name": "a", "missing": False, "numeric_value": None},
        {"id": 2, "name": "b", "missing": False, "numeric_value": None}]
gdim = {"references": {"alias": "g", "name": "G"},
        "type": {"class": "categorical", "categories": cats}}

# --- (1) tab-book with a numeric variable (mean) on the rows: 0-D cube + 1-D cube -------
refs = {"alias": "age", "name": "Age"}
c0 = {"result": {"dimensions": [], "counts": [10], "n": 10, "missing": 0,
                 "measures": {"mean": meas([33.5], refs),
                              "valid_count_unweighted": meas([9], {})}}}
c1 = {"result": {"dimensions": [gdim], "counts": [6, 4], "n": 10, "missing": 0,
                 "measures": {"mean": meas([30.0, 40.0], refs),
                              "valid_count_unweighted": meas([5, 4], {})}}}
cs = CubeSet([c0, c1], [{}, {}], None, 0)
strand, slice_ = cs.partition_sets[0]
out = {"tabbook": [strand.rows_dimension_name, [str(x) for x in strand.row_labels],
                   slice_.rows_dimension_name, [str(x) for x in slice_.row_labels],
                   slice_.means.tolist()]}

# --- (2) numeric array grouped by a categorical ------------------------------------------
arefs = {"alias": "tix", "name": "Tickets",
         "subreferences": [{"alias": "dk", "name": "Dark Knight"},
                           {"alias": "fc", "name": "Fight Club"}]}
c = {"result": {"dimensions": [gdim], "counts": [6, 4], "n": 10, "missing": 0,
                "measures": {"mean": meas([30.0, 40.0, 1.0, 2.0], arefs, ["S1", "S2"]),
                             "valid_count_unweighted": meas([5, 4, 3, 2], {}, ["S1", "S2"])}}}
s = Cube(c).partitions[0]
out["numarr"] = [s.rows_dimension_name, [str(x) for x in s.row_labels], s.means.tolist()]
print(json.dumps(out))
''' % SRC

EXPECTED = {
    "tabbook": ["Age", ["Age"], "Age", ["Age"], [[30.0, 40.0]]],
    "numarr": ["Tickets", ["Dark Knight", "Fight Club"], [[30.0, 1.0], [40.0, 2.0]]],
}


def main():
    results = {}
    for seed in range(8):
        env = dict(os.environ, PYTHONHASHSEED=str(seed))
        proc = subprocess.run(
            [sys.executable, "-c", CHILD], env=env, capture_output=True, text=True
        )
        if proc.returncode != 0:
            results[seed] = "CRASH: " + proc.stderr.strip().splitlines()[-1]
        else:
            results[seed] = json.loads(proc.stdout)
    bad = False
    for seed, res in results.items():
        ok = res == EXPECTED
        print("PYTHONHASHSEED=%d %s" % (seed, "ok" if ok else "DIFFERS"))
        if not ok:
            bad = True
            print("   got     :", res)
            print("   expected:", EXPECTED)
    distinct = {json.dumps(r, sort_keys=True) for r in results.values()}
    print("distinct outputs over 8 hash seeds:", len(distinct))
    return 1 if bad or len(distinct) > 1 else 0


if __name__ == "__main__":
    sys.exit(main())
