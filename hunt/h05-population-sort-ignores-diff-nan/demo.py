"""C08: sort-by-value on the 'population' measure does not treat subtotal *differences* as NaN.

The public population measure (`population_counts`) reports NaN for every subtotal difference
("Diff subtotals not allowed in population measure"), but the sort key is taken from the raw
population-proportion blocks in which a difference has an ordinary (signed) proportion. So
  (a) a difference subtotal is ranked by a value the public measure never shows instead of
      going last in its group, and
  (b) when rows are sorted by an opposing *difference* insertion, every base row is publicly
      NaN (=> payload order expected) yet the rows are reshuffled.
"""
import sys; src = "/repo/src"; sys.path.insert(0, src); import cr; cr.__path__ = [src + "/cr"]
import math
import numpy as np
from cr.cube.cube import Cube


def cat_dim(alias, ids, insertions):
    cats = [{"id": i, "missing": False, "name": "c%d" % i, "numeric_value": None} for i in ids]
    cats.append({"id": -1, "missing": True, "name": "No Data", "numeric_value": None})
    return {
        "derived": False,
        "references": {"alias": alias, "name": alias, "view": {"transform": {"insertions": insertions}}},
        "type": {"categories": cats, "class": "categorical", "ordinal": False},
    }


def response(dims, counts):
    flat = np.asarray(counts).flatten().tolist()
    n = int(sum(flat))
    return {
        "query": {"dimensions": [], "measures": {"count": {"args": [], "function": "cube_count"}}, "weight": None},
        "result": {
            "counts": flat, "dimensions": dims, "element": "crunch:cube",
            "measures": {"count": {"data": flat, "metadata": {"derived": True, "references": {},
                "type": {"class": "numeric", "integer": True, "missing_reasons": {"No Data": -1}, "missing_rules": {}}},
                "n_missing": 0}},
            "missing": 0, "n": n,
            "filtered": {"unweighted_n": n, "weighted_n": n}, "unfiltered": {"unweighted_n": n, "weighted_n": n},
        },
    }


def nan_last_monotone(values, descending):
    """True when `values` is monotone in the direction with all NaNs after all numbers."""
    seen_nan = False
    prev = None
    for v in values:
        if math.isnan(v):
            seen_nan = True
            continue
        if seen_nan:
            return False
        if prev is not None and ((descending and v > prev) or (not descending and v < prev)):
            return False
        prev = v
    return True


failures = []
POP = 1000

# ---------------------------------------------------------------- (a) strand, subtotal group
# counts: c1=10 c2=40 c3=5 c4=45 ; total 100
# "plain" = c3           -> proportion .05 -> population 50
# "diff"  = c2 - c1      -> a difference   -> population NaN (public measure says so)
ins = [
    {"function": "subtotal", "name": "plain", "anchor": "top", "args": [3], "id": 1},
    {"function": "subtotal", "name": "diff", "anchor": "top", "args": [2], "kwargs": {"positive": [2], "negative": [1]}, "id": 2},
]
resp = response([cat_dim("A", [1, 2, 3, 4], ins)], [10, 40, 5, 45, 0])
order = {"type": "univariate_measure", "measure": "population", "direction": "descending"}
strand = Cube(resp, transforms={"rows_dimension": {"order": order}}, population=POP).partitions[0]
labels = list(strand.row_labels)
pop = [float(v) for v in strand.population_counts]
# first principles: plain = 1000 * 5/100 = 50, diff = NaN, so descending subtotal group = [plain, diff]
expected_group = ["plain", "diff"]
got_group = [l for l in labels if l in ("plain", "diff")]
print("(a) strand rows  :", labels)
print("    population   :", pop)
sub_vals = [v for l, v in zip(labels, pop) if l in ("plain", "diff")]
if got_group != expected_group or not nan_last_monotone(sub_vals, True):
    failures.append("(a) subtotal group is %s with population %s; expected %s (NaN difference last)"
                    % (got_group, sub_vals, expected_group))

# ---------------------------------------------------------------- (b) slice, body rows
# rows c1..c4 x columns c1..c3; the column insertion is the difference c1 - c2.
col_ins = [{"function": "subtotal", "name": "c1-c2", "anchor": "bottom", "args": [1],
            "kwargs": {"positive": [1], "negative": [2]}, "id": 7}]
counts = [
    [5, 1, 3, 0],   # c1-c2 = 4
    [9, 1, 3, 0],   # 8
    [2, 1, 3, 0],   # 1
    [7, 1, 3, 0],   # 6
    [0, 0, 0, 0],
]
resp2 = response([cat_dim("R", [1, 2, 3, 4], []), cat_dim("C", [1, 2, 3], col_ins)], counts)
order2 = {"type": "opposing_insertion", "insertion_id": 7, "measure": "population"}
slice_ = Cube(resp2, transforms={"rows_dimension": {"order": order2}}, population=POP).partitions[0]
col = list(slice_.column_labels).index("c1-c2")
pub = [float(v) for v in slice_.population_counts[:, col]]
got_rows = [int(i) for i in slice_.row_order()]
print("(b) slice row order:", got_rows, "population in sort column:", pub)
# every value the public measure reports in the sort column is NaN -> payload order expected
if not all(math.isnan(v) for v in pub):
    failures.append("(b) premise broken: public population of a difference column is not NaN: %s" % pub)
elif got_rows != [0, 1, 2, 3]:
    failures.append("(b) all sort values are NaN publicly, expected payload order [0, 1, 2, 3], got %s" % got_rows)

if failures:
    print("\nDEFECT:")
    for f in failures:
        print("  -", f)
    sys.exit(1)
print("ok")
sys.exit(0)
