"""C13: pairwise column tests crash (IndexError) on a CAT x CAT table whose rows dimension has
no valid (non-missing) category - an empty (0 x n_cols) table.  The shipped fixture
`cat-x-cat-all-missing-row-elements.json` is such a cube; the same happens with a synthetic one.
Expected: (0, n_cols) t-stat / p-value matrices and a (0, n_cols) array of index sets - i.e. no
sets at all, like the other measures the library already serves for this table (`.counts`,
`.row_proportions`, ... are (0, 2))."""
import sys; src = "/repo/src"; sys.path.insert(0, src); import cr; cr.__path__ = [src + "/cr"]
import json
import numpy as np
from cr.cube.cube import Cube


def synthetic_cube():
    """rows: only a missing category; columns: 3 valid categories; 12 respondents"""
    def cat(id_, missing):
        return {"id": id_, "name": "c%d" % id_, "numeric_value": None, "missing": missing}

    def dim(alias, cats):
        return {
            "type": {"class": "categorical", "ordinal": False, "categories": cats},
            "references": {"alias": alias, "name": alias},
            "derived": False,
        }

    counts = [3, 4, 5]
    return {
        "result": {
            "n": 12,
            "counts": counts,
            "dimensions": [
                dim("r", [cat(-1, True)]),
                dim("c", [cat(1, False), cat(2, False), cat(3, False)]),
            ],
            "measures": {
                "count": {
                    "metadata": {"type": {"class": "numeric", "integer": True}, "derived": True, "references": {}},
                    "data": counts,
                    "n_missing": 12,
                }
            },
        }
    }


cases = {
    "fixture cat-x-cat-all-missing-row-elements.json": (
        json.load(open("/repo/tests/fixtures/cat-x-cat-all-missing-row-elements.json")),
        2,  # valid columns: ids 1 and 3
    ),
    "synthetic 0 x 3": (synthetic_cube(), 3),
}

failed = False
for name, (cube_dict, n_cols) in cases.items():
    for transforms in ({}, {"pairwise_indices": {"alpha": [0.05, 0.1], "only_larger": False}}):
        slice_ = Cube(cube_dict, transforms=transforms).partitions[0]
        assert slice_.counts.shape == (0, n_cols), slice_.counts.shape  # library agrees: empty table
        expected_shape = (0, n_cols)  # no rows => no cells => no statistics, no index sets
        observations = {
            "pairwise_significance_t_stats(0)": lambda: slice_.pairwise_significance_t_stats(0),
            "pairwise_significance_p_vals(%d)" % (n_cols - 1): lambda: slice_.pairwise_significance_p_vals(n_cols - 1),
            "pairwise_indices": lambda: slice_.pairwise_indices,
        }
        if transforms:
            observations["pairwise_indices_alt"] = lambda: slice_.pairwise_indices_alt
        for what, fn in observations.items():
            try:
                value = fn()
            except Exception as e:  # noqa
                failed = True
                print(f"[{name}] {what}: library raised {type(e).__name__}: {e}; expected an empty array of shape {expected_shape}")
                continue
            if np.shape(value) != expected_shape:
                failed = True
                print(f"[{name}] {what}: shape {np.shape(value)}, expected {expected_shape}")

if failed:
    print("FAIL: pairwise column tests crash on a table without valid rows")
    sys.exit(1)
print("OK")
sys.exit(0)
