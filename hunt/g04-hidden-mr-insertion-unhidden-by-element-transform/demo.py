"""A hidden MR insertion re-appears as soon as an element transform (fill / rename) names it.

An analysis hides the derived "dog or cat" item of a multiple-response variable the way the
library documents it: a copy of the variable's insertion with `"hide": true` in the
dimension transforms. That works - until the same transforms also carry an (unrelated)
element transform for that item, e.g. the chart fill colour or a display name. Then the
item is displayed again, although nothing asked to show it. (C09: hidden iff asked.)

Exit code 1 when the library violates the property, 0 otherwise.
"""
import sys

src = "/repo/src"
sys.path.insert(0, src)
import cr  # noqa: E402

cr.__path__ = [src + "/cr"]

import numpy as np  # noqa: E402
from cr.cube.cube import Cube  # noqa: E402

# ---------------------------------------------------------------- respondent-level data
#              dog cat   (1 selected, 0 not selected)
RESPONDENTS = [(1, 0), (0, 1), (1, 1), (0, 0), (0, 0), (1, 0), (0, 1)]
ITEMS = ["dog_or_cat", "dog", "cat"]  # payload order, derived item anchored at the top


def state(resp, item):
    dog, cat = resp
    return {"dog_or_cat": int(dog or cat), "dog": dog, "cat": cat}[item]


counts = np.zeros((len(ITEMS), 3), dtype=int)  # [item, (selected, other, missing)]
for r in RESPONDENTS:
    for k, item in enumerate(ITEMS):
        counts[k, 0 if state(r, item) else 1] += 1

subrefs = [
    {"alias": "dog_or_cat", "name": "dog or cat", "anchor": "top"},
    {"alias": "dog", "name": "dog"},
    {"alias": "cat", "name": "cat"},
]
VIEW_INSERTION = {
    "function": "any_selected",
    "name": "dog or cat",
    "anchor": "top",
    "kwargs": {"variable": "pets", "subvariable_ids": ["dog", "cat"]},
}
refs = {
    "alias": "pets",
    "name": "Pets",
    "description": "",
    "is_dichotomous": True,
    "subreferences": subrefs,
    "view": {"transform": {"insertions": [VIEW_INSERTION]}},
}
flat = [int(v) for v in counts.flatten()]
RESPONSE = {
    "result": {
        "counts": flat,
        "dimensions": [
            {
                "derived": True,
                "references": refs,
                "type": {
                    "class": "enum",
                    "subtype": {"class": "variable"},
                    "elements": [
                        {"id": 1, "missing": False,
                         "value": {"derived": True, "id": "dog or cat", "references": subrefs[0]}},
                        {"id": 2, "missing": False,
                         "value": {"derived": False, "id": "0001", "references": subrefs[1]}},
                        {"id": 3, "missing": False,
                         "value": {"derived": False, "id": "0002", "references": subrefs[2]}},
                    ],
                },
            },
            {
                "derived": True,
                "references": refs,
                "type": {
                    "class": "categorical",
                    "ordinal": False,
                    "subvariables": ["dog or cat", "0001", "0002"],
                    "categories": [
                        {"id": 1, "name": "Selected", "missing": False, "numeric_value": 1, "selected": True},
                        {"id": 0, "name": "Not Selected", "missing": False, "numeric_value": 0},
                        {"id": -1, "name": "No Data", "missing": True, "numeric_value": None},
                    ],
                },
            },
        ],
        "element": "crunch:cube",
        "measures": {
            "count": {
                "data": flat,
                "metadata": {
                    "derived": True,
                    "references": {},
                    "type": {"class": "numeric", "integer": True, "missing_reasons": {"No Data": -1}, "missing_rules": {}},
                },
                "n_missing": 0,
            }
        },
        "missing": 0,
        "n": len(RESPONDENTS),
    }
}

HIDDEN_INSERTION = dict(VIEW_INSERTION, hide=True)  # "a complete copy ... with hide: true"

# ---------------------------------------------------------------- first-principles expectation
# the insertion is flagged hidden and nothing un-hides it => only dog and cat are displayed
n_dog = sum(r[0] for r in RESPONDENTS)
n_cat = sum(r[1] for r in RESPONDENTS)
EXPECTED_LABELS = ["dog", "cat"]
EXPECTED_COUNTS = [n_dog, n_cat]

CASES = {
    "hide only": {"insertions": [HIDDEN_INSERTION]},
    "hide + fill colour for the item (by alias)": {
        "insertions": [HIDDEN_INSERTION],
        "elements": {"dog_or_cat": {"fill": "#aa0000"}, "dog": {"fill": "#00aa00"}},
    },
    "hide + fill colour for the item (by element id)": {
        "insertions": [HIDDEN_INSERTION],
        "elements": {"1": {"fill": "#aa0000"}},
    },
    "hide + rename of the item": {
        "insertions": [HIDDEN_INSERTION],
        "elements": {"dog_or_cat": {"name": "Any pet"}},
    },
}

bad = False
for title, dim_transforms in CASES.items():
    strand = Cube(RESPONSE, transforms={"rows_dimension": dim_transforms}).partitions[0]
    labels = strand.row_labels.tolist()
    cnts = strand.counts.tolist()
    ok = labels == EXPECTED_LABELS and cnts == EXPECTED_COUNTS
    print("%-50s labels=%r counts=%r  %s" % (title, labels, cnts, "ok" if ok else "<-- hidden insertion is displayed"))
    bad = bad or not ok

if bad:
    print("DEFECT: expected labels %r counts %r in every case" % (EXPECTED_LABELS, EXPECTED_COUNTS))
sys.exit(1 if bad else 0)
