"""Weighted single-column-filter cube loses its weights when it is augmented.

A tabbook-style CubeSet: cube 0 is the (weighted) univariate summary of a text variable,
cube 1 is the same variable restricted to a single filter column (`is_single_col_cube`),
also weighted.  zz9 omits from the filter cube the text values that have no respondents
under the filter, so `Cube.augment_response` re-expands it to the summary's rows.  The
re-expanded cube must still report the *weighted* number of filtered respondents per row.
"""
import sys; src = "/repo/src"; sys.path.insert(0, src); import cr; cr.__path__ = [src + "/cr"]

import numpy as np
from cr.cube.cube import CubeSet

# ---- respondent-level data: (text answer, weight, passes the column filter?) ----
respondents = [
    ("A", 1.5, True),
    ("A", 1.0, False),
    ("B", 0.5, False),   # nobody answering "B" passes the filter
    ("C", 2.0, True),
    ("C", 1.25, True),
    ("C", 1.25, False),
]


def text_dimension(values):
    elements = [{"id": i, "missing": False, "value": v} for i, v in enumerate(values)]
    elements.append({"id": -1, "missing": True, "value": {"?": -1}})
    return {
        "references": {"alias": "txt", "name": "Txt"},
        "type": {
            "class": "enum",
            "elements": elements,
            "subtype": {"class": "text", "missing_reasons": {"No Data": -1}, "missing_rules": {}},
        },
    }


def univariate_response(rows, single_col):
    """Cube response zz9 would give for `rows`: only the values present get an element."""
    values = sorted({v for v, _, _ in rows})
    unweighted = [sum(1 for v, _, _ in rows if v == val) for val in values] + [0]
    weighted = [sum(w for v, w, _ in rows if v == val) for val in values] + [0.0]
    result = {
        "dimensions": [text_dimension(values)],
        "counts": unweighted,
        "measures": {"count": {"data": weighted, "n_missing": 0, "metadata": {}}},
        "n": len(rows),
        "missing": 0,
    }
    if single_col:
        result["is_single_col_cube"] = True
    return {"result": result}


summary = univariate_response(respondents, single_col=False)
filtered = univariate_response([r for r in respondents if r[2]], single_col=True)

partition_set = CubeSet([summary, filtered], [{}, {}], None, 0).partition_sets[0]
summary_strand, filter_strand = partition_set

row_labels = [str(x) for x in summary_strand.row_labels]
exp_weighted = np.array(
    [sum(w for v, w, f in respondents if f and v == label) for label in row_labels]
)
exp_unweighted = np.array(
    [sum(1 for v, w, f in respondents if f and v == label) for label in row_labels]
)

print("rows                      :", row_labels)
print("filter column row labels  :", [str(x) for x in filter_strand.row_labels])
print("expected weighted counts  :", exp_weighted.tolist())
print("library  weighted counts  :", np.asarray(filter_strand.counts).tolist())
print("expected unweighted counts:", exp_unweighted.tolist())
print("library  unweighted counts:", np.asarray(filter_strand.unweighted_counts).tolist())

ok = (
    [str(x) for x in filter_strand.row_labels] == row_labels
    and np.allclose(filter_strand.counts, exp_weighted)
    and np.allclose(filter_strand.unweighted_counts, exp_unweighted)
)
if not ok:
    print("VIOLATION: augmented filter cube reports unweighted counts as its weighted counts")
sys.exit(0 if ok else 1)
