"""Pairwise column test on a subtotal-difference ROW (e.g. NPS = promoters - detractors).

The library plugs the difference of percentages d = p_add - p_sub into the Bernoulli
variance d(1-d)/n (taking an absolute value when that turns negative).  The variance of a
+1/-1/0 indicator (the one the library itself reports through `column_std_err`, C11) is
(p_add + p_sub - d^2)/n, so the t statistic / p-value / index sets of the difference row
are wrong: two columns that differ only by noise are flagged as (highly) significant.
"""
import sys

src = "/repo/src"
sys.path.insert(0, src)
import cr

cr.__path__ = [src + "/cr"]

import numpy as np
from scipy import stats
from cr.cube.cube import Cube

# ---- respondent level data: rows = recommend (1 promoter, 2 passive, 3 detractor)
# ----                        cols = wave (1, 2)
# wave 1: 1000 promoters,    0 passives, 1000 detractors   -> NPS   0.0
# wave 2: 1020 promoters,    0 passives,  980 detractors   -> NPS  +0.02  (pure noise)
cells = {(1, 1): 1000, (2, 1): 0, (3, 1): 1000, (1, 2): 1020, (2, 2): 0, (3, 2): 980}
row_ids, col_ids = [1, 2, 3], [1, 2]
counts = [cells[(r, c)] for r in row_ids for c in col_ids]


def cat_dim(alias, ids):
    cats = [{"id": i, "name": "%s%d" % (alias, i), "missing": False, "numeric_value": None} for i in ids]
    cats.append({"id": -1, "name": "No Data", "missing": True, "numeric_value": None})
    return {
        "type": {"class": "categorical", "ordinal": False, "categories": cats},
        "references": {"alias": alias, "name": alias},
        "derived": False,
    }


# payload carries the missing category too (all zero)
data = []
for r in row_ids + [-1]:
    for c in col_ids + [-1]:
        data.append(cells.get((r, c), 0))
response = {
    "result": {
        "n": sum(counts),
        "counts": data,
        "dimensions": [cat_dim("recommend", row_ids), cat_dim("wave", col_ids)],
        "measures": {
            "count": {
                "metadata": {"type": {"class": "numeric", "integer": True, "missing_reasons": {"No Data": -1}, "missing_rules": {}}, "references": {}, "derived": True},
                "data": data,
                "n_missing": 0,
            }
        },
        "missing": 0,
        "element": "crunch:cube",
    }
}
transforms = {
    "rows_dimension": {
        "insertions": [
            {"function": "subtotal", "name": "NPS", "anchor": "bottom", "args": [1], "kwargs": {"positive": [1], "negative": [3]}, "id": 1}
        ]
    },
    "pairwise_indices": {"only_larger": False},
}
slice_ = Cube(response, transforms=transforms).partitions[0]
nps_row = list(slice_.row_labels).index("NPS")

# ---- first-principles: the NPS of a column is the mean of x = +1 (promoter), -1 (detractor),
# ---- 0 (other) over the respondents of the column; compare the two column means
x = {}
for c in col_ids:
    x[c] = np.concatenate([np.full(cells[(1, c)], 1.0), np.full(cells[(2, c)], 0.0), np.full(cells[(3, c)], -1.0)])
n1, n2 = len(x[1]), len(x[2])
m1, m2 = x[1].mean(), x[2].mean()
v1, v2 = x[1].var(), x[2].var()  # population variance of the +1/-1/0 indicator (C11)
t_expected = (m2 - m1) / np.sqrt(v1 / n1 + v2 / n2)
p_expected = 2 * (1 - stats.t.cdf(abs(t_expected), df=n1 + n2 - 2))

ok = True
# the proportions and std-errs the library reports for the NPS row are the first-principles ones
assert np.allclose(slice_.column_proportions[nps_row], [m1, m2])
assert np.allclose(slice_.column_std_err[nps_row], [np.sqrt(v1 / n1), np.sqrt(v2 / n2)])

t_lib = slice_.pairwise_significance_t_stats(0)[nps_row, 1]
p_lib = slice_.pairwise_significance_p_vals(0)[nps_row, 1]
idx_lib = slice_.pairwise_indices[nps_row]
print("NPS by wave          :", slice_.column_proportions[nps_row])
print("std err of NPS (C11) :", slice_.column_std_err[nps_row])
print("t  wave2 vs wave1    : library %.4f   expected %.4f" % (t_lib, t_expected))
print("p  wave2 vs wave1    : library %.3g   expected %.3g" % (p_lib, p_expected))
print("pairwise_indices NPS : library %s   expected ((), ())" % (tuple(idx_lib),))
if not np.isclose(t_lib, t_expected, rtol=1e-6):
    ok = False
if not np.isclose(p_lib, p_expected, rtol=1e-6, atol=1e-12):
    ok = False
if tuple(idx_lib) != ((), ()):
    ok = False

# second symptom: with difference proportions of opposite sign the "variances" cancel
# (abs of the sum), e.g. NPS -0.2 vs +0.3 -- shown for information
sys.exit(0 if ok else 1)
