"""A null (or otherwise non-dict) per-element transform for an element that EXISTS makes
every read of the partition raise, instead of being ignored like the same entry is when
its key is stale.  Also `"elements": null` itself raises.

Expected values are computed here from the literal table, not from the library.
"""
import sys; src = "/repo/src"; sys.path.insert(0, src); import cr; cr.__path__ = [src + "/cr"]
import copy
import numpy as np
from cr.cube.cube import Cube


def cat_dim(alias, cats):
    return {
        "type": {
            "class": "categorical",
            "ordinal": False,
            "categories": [
                {"id": i, "name": n, "missing": False, "numeric_value": None}
                for i, n in cats
            ]
            + [{"id": -1, "name": "No Data", "missing": True, "numeric_value": None}],
        },
        "references": {"alias": alias, "name": alias},
    }


ROWS = [(1, "a"), (2, "b"), (3, "c")]
COLS = [(1, "x"), (2, "y")]
TABLE = [[10, 20], [30, 5], [7, 8]]


def response():
    data = []
    for r in TABLE:
        data += list(r) + [0]  # missing column
    data += [0] * (len(COLS) + 1)  # missing row
    n = sum(data)
    return {
        "result": {
            "dimensions": [cat_dim("R", ROWS), cat_dim("C", COLS)],
            "counts": data,
            "measures": {"count": {"data": data, "n_missing": 0, "metadata": {}}},
            "n": n,
            "missing": 0,
            "unfiltered": {"unweighted_n": n, "weighted_n": n},
            "filtered": {"unweighted_n": n, "weighted_n": n},
        }
    }


def expected(hidden_ids):
    keep = [k for k, (i, _) in enumerate(ROWS) if i not in hidden_ids]
    return [ROWS[k][1] for k in keep], [TABLE[k] for k in keep]


# (description, rows-dimension transforms, ids that the transforms really hide)
CASES = [
    ("control: entry omitted", {"elements": {"2": {"hide": True}}}, {2}),
    ("control: null entry under a STALE key is ignored", {"elements": {"99": None, "2": {"hide": True}}}, {2}),
    ("null entry for existing element 1", {"elements": {"1": None, "2": {"hide": True}}}, {2}),
    ("[] entry for existing element 1", {"elements": {"1": [], "2": {"hide": True}}}, {2}),
    ('"elements": null', {"elements": None, "prune": False}, set()),
]

bad = 0
for desc, dim_transforms, hidden in CASES:
    exp_labels, exp_counts = expected(hidden)
    try:
        slice_ = Cube(
            response(), transforms={"rows_dimension": copy.deepcopy(dim_transforms)}
        ).partitions[0]
        labels = slice_.row_labels.tolist()
        counts = slice_.counts.tolist()
        ok = labels == exp_labels and np.allclose(counts, exp_counts)
        print("%-55s %s  labels=%s" % (desc, "ok " if ok else "WRONG", labels))
        bad += not ok
    except Exception as e:  # noqa
        bad += 1
        print("%-55s RAISES %s: %s (expected labels %s)" % (desc, type(e).__name__, e, exp_labels))

# --- same thing on a multiple-response dimension of a fixture (item referenced by alias)
import json

mr = json.load(open("/repo/tests/fixtures/cat-x-mr.json"))
try:
    s = Cube(mr, transforms={"columns_dimension": {"elements": {"dog": None}}}).partitions[0]
    labels = s.column_labels.tolist()
    ok = labels == ["dog", "cat", "wombat"]
    print("%-55s %s  labels=%s" % ("CAT x MR, null entry for item 'dog'", "ok " if ok else "WRONG", labels))
    bad += not ok
except Exception as e:  # noqa
    bad += 1
    print("%-55s RAISES %s: %s" % ("CAT x MR, null entry for item 'dog'", type(e).__name__, e))

sys.exit(1 if bad else 0)
