"""Slice: in a response that carries only the *weighted* valid-count measure, the unweighted
count of a subtotal difference is a number instead of NaN.

C04: "in a response that carries valid counts for a numeric measure a difference's count is NaN".
The library applies that to `counts` and `unweighted_counts` when `valid_count_unweighted` is
present (alone or with the weighted one), and to `counts` when only `valid_count_weighted` is
present - but not to `unweighted_counts` in that last case.

Exit 1 when a difference's (weighted or unweighted) count is not NaN, 0 otherwise.
"""
import os
import sys

src = os.environ.get("CRCUBE_SRC", "/repo/src")
sys.path.insert(0, src)
import cr  # noqa

cr.__path__ = [src + "/cr"]

import numpy as np  # noqa
from cr.cube.cube import Cube  # noqa

# respondents: (row category, column category, weight, x or None)
DATA = [(1, 1, 2.0, 3.0), (1, 1, 1.0, None), (1, 2, 1.0, 4.0), (2, 1, 3.0, 5.0), (2, 2, 1.0, None),
        (2, 2, 2.0, 6.0), (3, 1, 1.0, 1.0), (3, 2, 1.0, 2.0), (3, 2, 2.0, 8.0)]
ROWS, COLS = [1, 2, 3], [1, 2]


def cells(fn):
    return [fn([(w, x) for (r, c, w, x) in DATA if r == rr and c == cc]) for rr in ROWS for cc in COLS]


def cats(ids):
    return [{"id": i, "name": "c%d" % i, "missing": False, "numeric_value": None} for i in ids]


def response(with_unweighted_valid, with_weighted_valid):
    insertions = [
        {"function": "subtotal", "name": "1 - 2", "args": [1], "kwargs": {"negative": [2]}, "anchor": "bottom"},
        {"function": "subtotal", "name": "1 + 2", "args": [1, 2], "anchor": "bottom"},
    ]
    dims = [
        {"references": {"alias": "r", "name": "R", "view": {"transform": {"insertions": insertions}}},
         "type": {"class": "categorical", "categories": cats(ROWS)}},
        {"references": {"alias": "c", "name": "C"}, "type": {"class": "categorical", "categories": cats(COLS)}},
    ]
    md = {"derived": True, "references": {"alias": "x", "name": "X"}, "type": {"class": "numeric"}}

    def mean(lst):
        v = [(w, x) for w, x in lst if x is not None]
        return sum(w * x for w, x in v) / sum(w for w, x in v) if v else {"?": -8}

    measures = {
        "count": {"data": cells(lambda l: sum(w for w, x in l)), "n_missing": 0, "metadata": {}},
        "mean": {"data": cells(mean), "n_missing": 0, "metadata": md},
    }
    if with_unweighted_valid:
        measures["valid_count_unweighted"] = {
            "data": cells(lambda l: len([1 for w, x in l if x is not None])), "n_missing": 0, "metadata": md}
    if with_weighted_valid:
        measures["valid_count_weighted"] = {
            "data": cells(lambda l: sum(w for w, x in l if x is not None)), "n_missing": 0, "metadata": md}
    return {"result": {"dimensions": dims, "counts": cells(len), "measures": measures,
                       "n": len(DATA), "missing": 0}}


bad = False
for vu, vw in ((True, True), (True, False), (False, True)):
    slice_ = Cube(response(vu, vw)).partitions[0]
    labels = [str(x) for x in slice_.row_labels]
    d = labels.index("1 - 2")
    for name in ("counts", "unweighted_counts"):
        row = np.asarray(getattr(slice_, name), dtype=float)[d]
        ok = bool(np.all(np.isnan(row)))
        print("valid_count_unweighted=%-5s valid_count_weighted=%-5s %-17s of difference row: %-14s %s"
              % (vu, vw, name, row.tolist(), "ok (NaN)" if ok else "<-- expected NaN"))
        bad |= not ok
sys.exit(1 if bad else 0)
