"""Sort-by-value order whose "fixed" member (or its "top"/"bottom" list) is null raises.

`"fixed": {"top": [3], "bottom": null}` / `"fixed": null` are the natural JSON spellings of "nothing
fixed at the bottom" / "nothing fixed"; `{}`, `[]` and an omitted key all work.
Expected order is worked out here from the labels / the literal table.
"""
import sys; src = "/repo/src"; sys.path.insert(0, src); import cr; cr.__path__ = [src + "/cr"]
import copy
import json
from cr.cube.cube import Cube


def cat_dim(alias, cats):
    return {
        "type": {
            "class": "categorical",
            "ordinal": False,
            "categories": [
                {"id": i, "name": n, "missing": False, "numeric_value": None}
                for i, n in cats
            ]
            + [{"id": -1, "name": "No Data", "missing": True, "numeric_value": None}],
        },
        "references": {"alias": alias, "name": alias},
    }


ROWS = [(1, "b"), (2, "a"), (3, "c"), (4, "d")]
COLS = [(1, "x"), (2, "y")]
TABLE = [[10, 20], [30, 5], [7, 8], [1, 50]]


def response():
    data = []
    for r in TABLE:
        data += list(r) + [0]
    data += [0] * (len(COLS) + 1)
    n = sum(data)
    return {
        "result": {
            "dimensions": [cat_dim("R", ROWS), cat_dim("C", COLS)],
            "counts": data,
            "measures": {"count": {"data": data, "n_missing": 0, "metadata": {}}},
            "n": n,
            "missing": 0,
            "unfiltered": {"unweighted_n": n, "weighted_n": n},
            "filtered": {"unweighted_n": n, "weighted_n": n},
        }
    }


def expected_rows(order):
    """Row labels in the order C08 prescribes, from first principles."""
    fixed = order.get("fixed") or {}
    top = [i for i in (fixed.get("top") or [])]
    bottom = [i for i in (fixed.get("bottom") or [])]
    name = dict(ROWS)
    body = [i for i, _ in ROWS if i not in top and i not in bottom]
    asc = order.get("direction") == "ascending"
    if order["type"] == "label":
        body.sort(key=lambda i: name[i], reverse=not asc)
    else:  # opposing_element on column id 1, count_unweighted
        col = {i: TABLE[k][0] for k, (i, _) in enumerate(ROWS)}
        body.sort(key=lambda i: col[i], reverse=not asc)
    return [name[i] for i in top + body + bottom]


ORDERS = [
    {"type": "label", "direction": "ascending", "fixed": {"top": [3], "bottom": []}},  # control
    {"type": "label", "direction": "ascending", "fixed": {"top": [3], "bottom": None}},
    {"type": "label", "direction": "ascending", "fixed": {"top": None, "bottom": [3]}},
    {"type": "label", "direction": "ascending", "fixed": None},
    {"type": "opposing_element", "element_id": 1, "measure": "count_unweighted", "fixed": None},
    {"type": "opposing_element", "element_id": 1, "measure": "count_unweighted", "fixed": {"bottom": None}},
]

bad = 0
for order in ORDERS:
    exp = expected_rows(order)
    try:
        s = Cube(response(), transforms={"rows_dimension": {"order": copy.deepcopy(order)}}).partitions[0]
        got = s.row_labels.tolist()
        ok = got == exp
        print("%-6s %s -> %s" % ("ok" if ok else "WRONG", json.dumps(order), got))
        bad += not ok
    except Exception as e:  # noqa
        bad += 1
        print("RAISES %s -> %s: %s   (expected %s)" % (json.dumps(order), type(e).__name__, e, exp))

# --- an array (MR) dimension: the id shim tolerates the null, _OrderSpec still does not
mr = json.load(open("/repo/tests/fixtures/cat-x-mr.json"))
order = {"type": "label", "direction": "ascending", "fixed": {"top": ["wombat"], "bottom": None}}
exp = ["wombat", "cat", "dog"]
try:
    s = Cube(mr, transforms={"columns_dimension": {"order": order}}).partitions[0]
    got = s.column_labels.tolist()
    print("%-6s MR columns %s -> %s" % ("ok" if got == exp else "WRONG", json.dumps(order), got))
    bad += got != exp
except Exception as e:  # noqa
    bad += 1
    print("RAISES MR columns %s -> %s: %s   (expected %s)" % (json.dumps(order), type(e).__name__, e, exp))

# --- a strand
cat = json.load(open("/repo/tests/fixtures/univariate-categorical.json"))
base = Cube(cat).partitions[0]
labels = base.row_labels.tolist()
counts = base.counts.tolist()
exp = [l for _, l in sorted(zip(counts, labels), key=lambda t: -t[0])]
order = {"type": "univariate_measure", "measure": "count_unweighted", "fixed": None}
try:
    got = Cube(cat, transforms={"rows_dimension": {"order": order}}).partitions[0].row_labels.tolist()
    print("%-6s strand %s -> %s" % ("ok" if got == exp else "WRONG", json.dumps(order), got))
    bad += got != exp
except Exception as e:  # noqa
    bad += 1
    print("RAISES strand %s -> %s: %s   (expected %s)" % (json.dumps(order), type(e).__name__, e, exp))

sys.exit(1 if bad else 0)
