"""Cube.valid_counts_summary_range sums over the wrong axis when a multiple-response
dimension precedes a categorical one (and never collapses the MR selected/other axis).

A mean response for MR x CAT and the transposed response CAT x MR (same six respondents)
must report the same [min, max] range of per-item valid counts; and that range must be
the collapsed form of the per-cell valid counts, i.e. for every MR item the number of
respondents with a valid numeric answer counted over ALL categories.

exit 1 = library violates the property, 0 = ok.
"""
import os
import sys

src = os.environ.get("CRCUBE_SRC", "/repo/src")
sys.path.insert(0, src)
import cr  # noqa: E402

cr.__path__ = [src + "/cr"]

import numpy as np  # noqa: E402

from cr.cube.cube import Cube, CubeSet  # noqa: E402

# ---- respondent-level data -------------------------------------------------------------
# (item1, item2, category, numeric)  item: "s" selected / "o" other / "m" missing
RESPONDENTS = [
    ("s", "o", "a", 1.0),
    ("s", "s", "a", 2.0),
    ("o", "s", "b", 3.0),
    ("s", "o", "b", 4.0),
    ("s", "m", "a", 5.0),
    ("o", "o", "a", None),  # numeric answer missing
]
MRCAT = ["s", "o", "m"]  # payload order of the MR categories dimension: 1, 0, -1
CATS = ["a", "b", "nodata"]

MR_REFS = {
    "alias": "mr",
    "name": "MR",
    "subreferences": [{"alias": "i1", "name": "I1"}, {"alias": "i2", "name": "I2"}],
}
MR_SUBVAR_DIM = {
    "derived": True,
    "references": MR_REFS,
    "type": {
        "class": "enum",
        "subtype": {"class": "variable"},
        "elements": [
            {"id": 1, "missing": False,
             "value": {"id": "0001", "derived": False,
                       "references": {"alias": "i1", "name": "I1"}}},
            {"id": 2, "missing": False,
             "value": {"id": "0002", "derived": False,
                       "references": {"alias": "i2", "name": "I2"}}},
        ],
    },
}
MR_CAT_DIM = {
    "derived": True,
    "references": MR_REFS,
    "type": {
        "class": "categorical",
        "ordinal": False,
        "subvariables": ["0001", "0002"],
        "categories": [
            {"id": 1, "name": "Selected", "missing": False, "numeric_value": 1,
             "selected": True},
            {"id": 0, "name": "Other", "missing": False, "numeric_value": 0},
            {"id": -1, "name": "No Data", "missing": True, "numeric_value": None},
        ],
    },
}
CAT_DIM = {
    "derived": False,
    "references": {"alias": "g", "name": "G"},
    "type": {
        "class": "categorical",
        "ordinal": False,
        "categories": [
            {"id": 1, "name": "a", "missing": False, "numeric_value": None},
            {"id": 2, "name": "b", "missing": False, "numeric_value": None},
            {"id": -1, "name": "No Data", "missing": True, "numeric_value": None},
        ],
    },
}


def tabulate(mr_first):
    """counts, valid counts and means over the raw payload shape"""
    shape = (2, 3, 3) if mr_first else (3, 2, 3)
    n = np.zeros(shape)
    nvalid = np.zeros(shape)
    total = np.zeros(shape)
    for i1, i2, cat, x in RESPONDENTS:
        for item, ans in enumerate((i1, i2)):
            c, m = CATS.index(cat), MRCAT.index(ans)
            idx = (item, m, c) if mr_first else (c, item, m)
            n[idx] += 1
            if x is not None:
                nvalid[idx] += 1
                total[idx] += x
    return n, nvalid, total


def response(mr_first):
    n, nvalid, total = tabulate(mr_first)
    dims = (
        [MR_SUBVAR_DIM, MR_CAT_DIM, CAT_DIM]
        if mr_first
        else [CAT_DIM, MR_SUBVAR_DIM, MR_CAT_DIM]
    )
    means = [
        (t / v) if v else {"?": -8} for t, v in zip(total.ravel(), nvalid.ravel())
    ]
    meta = {
        "derived": True,
        "references": {"alias": "x", "name": "X"},
        "type": {"class": "numeric", "integer": False, "missing_rules": {},
                 "missing_reasons": {"No Data": -1, "NaN": -8}},
    }
    return {
        "result": {
            "dimensions": dims,
            "counts": [int(v) for v in n.ravel()],
            "measures": {
                "count": {"data": [int(v) for v in n.ravel()], "n_missing": 0,
                          "metadata": meta},
                "mean": {"data": means, "n_missing": 1, "metadata": meta},
                "valid_count_unweighted": {
                    "data": [int(v) for v in nvalid.ravel()], "n_missing": 1,
                    "metadata": meta},
            },
            "n": len(RESPONDENTS),
            "missing": 0,
            "element": "crunch:cube",
        }
    }


# ---- first principles ------------------------------------------------------------------
# summary valid count of an MR item = respondents with a valid numeric answer and a valid
# category who belong to the item (selected it); the alternative reading "answered the
# item" (selected or not) is shown too - the library matches neither.
def per_item(belongs):
    out = []
    for item in (0, 1):
        out.append(
            sum(
                1
                for r in RESPONDENTS
                if r[3] is not None and r[2] in ("a", "b") and r[item] in belongs
            )
        )
    return (float(min(out)), float(max(out)))


exp_selected = per_item(("s",))
exp_answered = per_item(("s", "o"))

got_mr_cat = tuple(float(v) for v in Cube(response(True)).valid_counts_summary_range)
got_cat_mr = tuple(float(v) for v in Cube(response(False)).valid_counts_summary_range)
got_set = tuple(
    float(v)
    for v in CubeSet([response(True)], [{}], None, 0).valid_counts_summary_range
)

print("first principles, item members (selected)      :", exp_selected)
print("first principles, item respondents (sel+other) :", exp_answered)
print("Cube(MR x CAT).valid_counts_summary_range      :", got_mr_cat)
print("Cube(CAT x MR).valid_counts_summary_range      :", got_cat_mr)
print("CubeSet([MR x CAT]).valid_counts_summary_range :", got_set)

bad = False
if got_mr_cat != got_cat_mr:
    print("VIOLATION: the range changes when the two dimensions are exchanged")
    bad = True
if got_mr_cat not in (exp_selected, exp_answered):
    print("VIOLATION: MR x CAT range is not a collapse of the per-item valid counts "
          "(it summed the selected/other axis and kept the categories apart)")
    bad = True
if got_cat_mr not in (exp_selected, exp_answered):
    print("VIOLATION: CAT x MR range mixes 'selected' and 'other' valid counts")
    bad = True
sys.exit(1 if bad else 0)
