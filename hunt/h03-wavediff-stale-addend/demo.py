"""C04: categorical-date difference whose addend ids are all stale/missing.

"ids that are missing or no longer exist contribute nothing": a difference
`positive: [9], negative: [1]` where category 9 is gone is the signed merge `0 - cat1`.

* slice (matrix/subtotals.py::WaveDiffSubtotal): with a CAT_DATE dimension the helper computes
  `sum(counts[[]]) / sum(bases[[]]) - ...` = 0/0 - ... = NaN, so even the *other-direction*
  proportion of the difference (which is a plain signed merge for every other insertion and for a
  non-date dimension) becomes NaN.
* strand (stripe/insertion.py::WaveDiffSubtotals): guards with `len(addend_idxs) > 0`, which makes
  it skip the "several terms on either side -> NaN" rule when the addends are stale, so
  `positive: [9], negative: [1, 2]` reports a number on a strand but NaN on a slice.
"""
import sys

src = "/repo/src"
sys.path.insert(0, src)
import cr

cr.__path__ = [src + "/cr"]

import copy
import numpy as np
from cr.cube.cube import Cube


def cat_dim(alias, cats):
    return {
        "derived": False,
        "references": {"alias": alias, "name": alias},
        "type": {"class": "categorical", "ordinal": False, "categories": cats},
    }


def wave_cats(dated):
    cats = []
    for i, (name, date) in enumerate(
        (("Jan", "2020-01"), ("Feb", "2020-02"), ("Mar", "2020-03")), 1
    ):
        c = {"id": i, "name": name, "missing": False, "numeric_value": None}
        if dated:
            c["date"] = date
        cats.append(c)
    return cats


def response(dims, counts):
    flat = [int(x) for x in np.asarray(counts).ravel()]
    return {
        "query": {},
        "result": {
            "dimensions": dims,
            "counts": flat,
            "measures": {
                "count": {
                    "data": flat,
                    "n_missing": 0,
                    "metadata": {"type": {"class": "numeric"}},
                }
            },
            "n": sum(flat),
            "missing": 0,
            "element": "crunch:cube",
        },
    }


def same(a, b):
    return np.allclose(np.asarray(a, float), np.asarray(b, float), equal_nan=True)


failures = []

# ------------------------------------------------------------------ slice: wave x gender
COUNTS = np.array([[10, 30], [20, 20], [70, 50]])  # rows Jan, Feb, Mar; cols M, F
gender = cat_dim(
    "gender",
    [
        {"id": 1, "name": "M", "missing": False, "numeric_value": None},
        {"id": 2, "name": "F", "missing": False, "numeric_value": None},
    ],
)
STALE_MINUS_JAN = {
    "function": "subtotal",
    "name": "Apr-Jan",  # category 9 ("Apr") does not exist (any more)
    "anchor": "bottom",
    "args": [9],
    "kwargs": {"positive": [9], "negative": [1]},
    "id": 1,
}
col_base = COUNTS.sum(axis=0).astype(float)
expected_counts = 0 - COUNTS[0].astype(float)  # nothing minus Jan
expected_col_props = expected_counts / col_base  # other-direction proportion: signed merge

for dated in (False, True):
    s = Cube(
        response([cat_dim("wave", wave_cats(dated)), gender], COUNTS),
        transforms={"rows_dimension": {"insertions": [copy.deepcopy(STALE_MINUS_JAN)]}},
    ).partitions[0]
    i = list(s.row_labels).index("Apr-Jan")
    assert i in s.diff_row_idxs
    kind = "CAT_DATE" if dated else "CAT     "
    print(kind, "rows: counts[Apr-Jan]             =", s.counts[i], " expected", expected_counts)
    print(kind, "rows: column_proportions[Apr-Jan] =", s.column_proportions[i], " expected", expected_col_props)
    print(kind, "rows: row_proportions[Apr-Jan]    =", s.row_proportions[i], " expected [nan nan] (own direction)")
    if not same(s.counts[i], expected_counts):
        failures.append("%s slice counts" % kind)
    if not same(s.column_proportions[i], expected_col_props):
        failures.append("%s slice column_proportions of the stale-addend difference" % kind.strip())
    if not np.all(np.isnan(s.row_proportions[i])):
        failures.append("%s slice row_proportions" % kind)

# ------------------------------------------------------------------ strand vs slice, 2 subtrahends
STALE_MINUS_TWO = {
    "function": "subtotal",
    "name": "Apr-(Jan+Feb)",
    "anchor": "bottom",
    "args": [9],
    "kwargs": {"positive": [9], "negative": [1, 2]},
    "id": 1,
}
strand = Cube(
    response([cat_dim("wave", wave_cats(True))], COUNTS.sum(axis=1)),
    transforms={"rows_dimension": {"insertions": [copy.deepcopy(STALE_MINUS_TWO)]}},
).partitions[0]
slice2 = Cube(
    response([cat_dim("wave", wave_cats(True)), gender], COUNTS),
    transforms={"rows_dimension": {"insertions": [copy.deepcopy(STALE_MINUS_TWO)]}},
).partitions[0]
k = list(strand.row_labels).index("Apr-(Jan+Feb)")
k2 = list(slice2.row_labels).index("Apr-(Jan+Feb)")
print("CAT_DATE strand: table_proportions[Apr-(Jan+Feb)]  =", strand.table_proportions[k],
      " expected nan (two terms on the subtrahend side)")
print("CAT_DATE slice : column_proportions[Apr-(Jan+Feb)] =", slice2.column_proportions[k2])
if not np.isnan(strand.table_proportions[k]):
    failures.append("strand table_proportions of a 0-minus-2 cat-date difference is not NaN")

if failures:
    print("PROPERTY VIOLATED (C04):")
    for f in failures:
        print("  -", f)
    sys.exit(1)
print("ok")
sys.exit(0)
