"""C04: count of a subtotal *difference* in a response that carries valid counts - strand.

Statement: "An inserted subtotal's count equals the sum of its addends' counts minus the sum of its
subtrahends' counts (...; in a response that carries valid counts for a numeric measure a
difference's count is NaN instead)".

A _Slice honours the NaN rule (matrix/cubemeasure.py::CubeMeasures.*_cube_counts pass `diff_nans`
to SumSubtotals), a _Strand built from the very same kind of response does not: its counts (and
everything derived from them) are computed with the plain addends-minus-subtrahends rule.
"""
import sys

src = "/repo/src"
sys.path.insert(0, src)
import cr

cr.__path__ = [src + "/cr"]

import copy
import numpy as np
from cr.cube.cube import Cube

GENDER = {
    "derived": False,
    "references": {"alias": "Gender", "name": "Gender"},
    "type": {
        "class": "categorical",
        "ordinal": False,
        "categories": [
            {"id": 1, "name": "Male", "missing": False, "numeric_value": None},
            {"id": 2, "name": "Female", "missing": False, "numeric_value": None},
            {"id": -1, "name": "No Data", "missing": True, "numeric_value": None},
        ],
    },
}
WAVE = {
    "derived": False,
    "references": {"alias": "Wave", "name": "Wave"},
    "type": {
        "class": "categorical",
        "ordinal": False,
        "categories": [
            {"id": 1, "name": "W1", "missing": False, "numeric_value": None},
            {"id": 2, "name": "W2", "missing": False, "numeric_value": None},
        ],
    },
}


def measure(data, refs=None):
    return {
        "data": data,
        "n_missing": 0,
        "metadata": {
            "derived": True,
            "references": refs or {"alias": "Movies", "name": "Movies"},
            "type": {"class": "numeric", "integer": False, "missing_rules": {}, "missing_reasons": {"No Data": -1}},
        },
    }


def response(dims, counts, valid, sums):
    # --- same layout as tests/fixtures/cat-sum.json (sum + unweighted valid count, no "count")
    return {
        "query": {},
        "result": {
            "dimensions": dims,
            "counts": counts,
            "measures": {
                "valid_count_unweighted": measure(valid),
                "sum": measure(sums),
            },
            "n": sum(counts),
            "missing": 0,
            "element": "crunch:cube",
        },
    }


INSERTIONS = [
    {
        "function": "subtotal",
        "name": "Male-Female",
        "anchor": "bottom",
        "args": [1],
        "kwargs": {"positive": [1], "negative": [2]},
        "id": 1,
    },
    {"function": "subtotal", "name": "All", "anchor": "bottom", "args": [1, 2], "id": 2},
]
TRANSFORMS = {"rows_dimension": {"insertions": INSERTIONS}}

# --- 1-D: Gender, valid counts [3, 2, 0] and sums [88, 77, 0] (this *is* cat-sum.json)
strand = Cube(
    response([copy.deepcopy(GENDER)], [3, 2, 0], [3, 2, 0], [88.0, 77.0, 0.0]),
    transforms=copy.deepcopy(TRANSFORMS),
).partitions[0]
# --- 2-D: the same rows crossed with a 2-category variable, same measures
slice_ = Cube(
    response(
        [copy.deepcopy(GENDER), copy.deepcopy(WAVE)],
        [2, 1, 1, 1, 0, 0],
        [2, 1, 1, 1, 0, 0],
        [60.0, 28.0, 40.0, 37.0, 0.0, 0.0],
    ),
    transforms=copy.deepcopy(TRANSFORMS),
).partitions[0]

i = list(strand.row_labels).index("Male-Female")
j = list(slice_.row_labels).index("Male-Female")
t = list(strand.row_labels).index("All")
assert strand.diff_row_idxs == (i,) and slice_.diff_row_idxs == (j,)
assert i in strand.inserted_row_idxs

print("response measures: valid_count_unweighted + sum  (a 'valid counts' response)")
print("slice : counts[Male-Female]            =", slice_.counts[j], "   (NaN, as the property states)")
print("slice : unweighted_counts[Male-Female] =", slice_.unweighted_counts[j])
print("strand: counts[Male-Female]            =", strand.counts[i], "   expected nan")
print("strand: unweighted_counts[Male-Female] =", strand.unweighted_counts[i], "   expected nan")
print("strand: table_proportions[Male-Female] =", strand.table_proportions[i], "   (derived from that count)")
print("strand: counts[All] =", strand.counts[t], " expected 5.0 (plain subtotal is a merged category)")

failures = []
if not np.all(np.isnan(slice_.counts[j])):
    failures.append("slice counts of a difference not NaN")  # does not happen
if not np.isnan(strand.counts[i]):
    failures.append("strand.counts[difference] = %r, expected NaN" % strand.counts[i])
if not np.isnan(strand.unweighted_counts[i]):
    failures.append("strand.unweighted_counts[difference] = %r, expected NaN" % strand.unweighted_counts[i])
if strand.counts[t] != 5.0:
    failures.append("strand plain subtotal")

if failures:
    print("PROPERTY VIOLATED (C04):")
    for f in failures:
        print("  -", f)
    sys.exit(1)
print("ok")
sys.exit(0)
