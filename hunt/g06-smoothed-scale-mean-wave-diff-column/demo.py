"""smoothed_columns_scale_mean reports garbage for a one-minus-one wave-difference column.

CAT (numeric values 1,2,3) x CAT_DATE (3 waves), one column insertion "wave3 - wave1".
`columns_scale_mean` is NaN for the difference column (a difference has no respondents
whose values could be averaged); `smoothed_columns_scale_mean` must agree with it:
  * with an invalid window (1, or larger than the number of periods) C20 says the
    unsmoothed values are returned unchanged;
  * with a valid window the subtotal columns are not periods and stay unsmoothed.
Instead the library divides sum(v * (pA - pB)) by sum(pA - pB) (~0) and returns +-1e15.
"""
import sys

src = "/repo/src"
sys.path.insert(0, src)
import cr

cr.__path__ = [src + "/cr"]

import warnings

import numpy as np

from cr.cube.cube import Cube

warnings.simplefilter("ignore")

# rows: 3 categories with numeric values 1, 2, 3; columns: 3 waves
COUNTS = np.array([[3, 5, 4], [2, 3, 5], [1, 2, 2]])
VALUES = np.array([1.0, 2.0, 3.0])


def response():
    return {
        "result": {
            "counts": COUNTS.ravel().tolist(),
            "dimensions": [
                {
                    "references": {"alias": "r", "name": "R"},
                    "type": {
                        "class": "categorical",
                        "ordinal": False,
                        "categories": [
                            {"id": i + 1, "missing": False, "name": "r%d" % (i + 1), "numeric_value": int(VALUES[i])}
                            for i in range(3)
                        ],
                    },
                },
                {
                    "references": {"alias": "wave", "name": "Wave"},
                    "type": {
                        "class": "categorical",
                        "ordinal": False,
                        "categories": [
                            {"id": i + 1, "missing": False, "name": "w%d" % (i + 1), "date": "2020-0%d" % (i + 1)}
                            for i in range(3)
                        ],
                    },
                },
            ],
            "measures": {"count": {"data": COUNTS.ravel().tolist(), "n_missing": 0, "metadata": {"type": {"class": "numeric", "integer": True}}}},
            "missing": 0,
            "n": int(COUNTS.sum()),
        }
    }


INSERTIONS = [
    {"function": "subtotal", "anchor": "bottom", "name": "w3 - w1", "kwargs": {"positive": [3], "negative": [1]}},
    {"function": "subtotal", "anchor": "bottom", "name": "w1 + w2", "args": [1, 2]},
]


def trailing(M, w):
    out = np.full(M.shape, np.nan)
    for t in range(w - 1, M.shape[1]):
        out[:, t] = M[:, t - w + 1 : t + 1].mean(axis=1)
    return out


def expected(window):
    """first principles: [3 waves, difference, plain subtotal]"""
    colprops = COUNTS / COUNTS.sum(axis=0)
    if 2 <= window <= 3:
        colprops = trailing(colprops, window)
    waves = (VALUES[:, None] * colprops).sum(axis=0) / colprops.sum(axis=0)
    merged = COUNTS[:, [0, 1]].sum(axis=1)  # plain subtotal = merged category, unsmoothed
    plain = (VALUES * merged).sum() / merged.sum()
    # a difference column has no base of respondents: its scale mean is undefined (NaN), exactly
    # what `columns_scale_mean` reports for it
    return np.concatenate([waves, [np.nan, plain]])


bad = 0
for window in (1, 2, 3, 7):
    slice_ = Cube(
        response(),
        transforms={"columns_dimension": {"insertions": INSERTIONS, "smoother": {"function": "one_sided_moving_avg", "window": window}}},
    ).partitions[0]
    got = np.asarray(slice_.smoothed_columns_scale_mean, dtype=float)
    exp = expected(window)
    unsmoothed = np.asarray(slice_.columns_scale_mean, dtype=float)
    ok = np.allclose(got, exp, equal_nan=True)
    if window in (1, 7):  # invalid window: must be the unsmoothed values, unchanged
        ok = ok and np.allclose(got, unsmoothed, equal_nan=True)
    if not ok:
        bad += 1
        print("window=%d" % window)
        print("   smoothed_columns_scale_mean :", got)
        print("   expected                    :", exp)
        print("   columns_scale_mean          :", unsmoothed)

if bad:
    print("DEFECT: smoothed scale mean of a wave-difference column is not NaN / differs from the unsmoothed value")
    sys.exit(1)
print("ok")
sys.exit(0)
