"""C04: a non-difference subtotal crossing a categorical-date wave difference.

A row subtotal without subtrahends must behave like one category obtained by merging
its addends in the data.  Crossed with a wave difference defined on a categorical-date
columns dimension, the library does that for every *base* row but not for the inserted
(subtotal) row: the intersection block of column/row proportions is computed with the
generic count/base division and never goes through the wave-difference rule.
"""
import sys

src = "/repo/src"
sys.path.insert(0, src)
import cr

cr.__path__ = [src + "/cr"]

import copy
import numpy as np
from cr.cube.cube import Cube

# ---- input: opinion (3 categories) x wave (categorical date, 3 waves), plain counts ----
COUNTS = np.array(
    [
        # w1  w2  w3
        [10, 30, 25],  # 1 Very
        [20, 20, 15],  # 2 Somewhat
        [70, 50, 60],  # 3 Not
    ]
)


def cat_dim(alias, cats):
    return {
        "derived": False,
        "references": {"alias": alias, "name": alias},
        "type": {"class": "categorical", "ordinal": False, "categories": cats},
    }


def make_response(counts, row_cats):
    flat = [int(x) for x in counts.ravel()]
    return {
        "query": {},
        "result": {
            "dimensions": [
                cat_dim("opinion", row_cats),
                cat_dim(
                    "wave",
                    [
                        {"id": 1, "name": "Jan", "missing": False, "date": "2020-01"},
                        {"id": 2, "name": "Feb", "missing": False, "date": "2020-02"},
                        {"id": 3, "name": "Mar", "missing": False, "date": "2020-03"},
                    ],
                ),
            ],
            "counts": flat,
            "measures": {
                "count": {
                    "data": flat,
                    "n_missing": 0,
                    "metadata": {"type": {"class": "numeric"}},
                }
            },
            "n": int(counts.sum()),
            "missing": 0,
            "element": "crunch:cube",
        },
    }


ROW_CATS = [
    {"id": 1, "name": "Very", "missing": False, "numeric_value": None},
    {"id": 2, "name": "Somewhat", "missing": False, "numeric_value": None},
    {"id": 3, "name": "Not", "missing": False, "numeric_value": None},
]
COL_INSERTIONS = [
    {  # one-minus-one wave difference: reports difference of the two percentages
        "function": "subtotal",
        "name": "Feb-Jan",
        "anchor": "bottom",
        "args": [2],
        "kwargs": {"positive": [2], "negative": [1]},
        "id": 1,
    },
    {  # several terms on one side: NaN in every proportion
        "function": "subtotal",
        "name": "FebMar-Jan",
        "anchor": "bottom",
        "args": [2, 3],
        "kwargs": {"positive": [2, 3], "negative": [1]},
        "id": 2,
    },
]
ROW_INSERTIONS = [
    {
        "function": "subtotal",
        "name": "Top2",
        "anchor": "top",
        "args": [1, 2],
        "kwargs": {"positive": [1, 2]},
        "id": 1,
    }
]

slice_ = Cube(
    make_response(COUNTS, ROW_CATS),
    transforms={
        "rows_dimension": {"insertions": copy.deepcopy(ROW_INSERTIONS)},
        "columns_dimension": {"insertions": copy.deepcopy(COL_INSERTIONS)},
    },
).partitions[0]

rows = list(slice_.row_labels)  # Top2, Very, Somewhat, Not
cols = list(slice_.column_labels)  # Jan, Feb, Mar, Feb-Jan, FebMar-Jan
r_top2, r_very, r_some = rows.index("Top2"), rows.index("Very"), rows.index("Somewhat")
c_d1, c_d2 = cols.index("Feb-Jan"), cols.index("FebMar-Jan")
assert r_top2 in slice_.inserted_row_idxs
assert (c_d1 in slice_.diff_column_idxs) and (c_d2 in slice_.diff_column_idxs)

# ---- expectation from first principles: merge "Very" and "Somewhat" in the data ----
merged = np.array([COUNTS[0] + COUNTS[1], COUNTS[2]])  # rows: Top2, Not
col_base = merged.sum(axis=0)
col_pct = merged / col_base
exp_colprop_top2_d1 = col_pct[0, 1] - col_pct[0, 0]  # Feb% - Jan% for the merged row
exp_rowprop_top2_d2 = np.nan  # several addends on a cat-date difference -> NaN

# ---- what the library itself reports when the data really is merged ---------------
merged_slice = Cube(
    make_response(
        merged,
        [
            {"id": 9, "name": "Top2", "missing": False, "numeric_value": None},
            {"id": 3, "name": "Not", "missing": False, "numeric_value": None},
        ],
    ),
    transforms={"columns_dimension": {"insertions": copy.deepcopy(COL_INSERTIONS)}},
).partitions[0]
lib_merged_colprop = merged_slice.column_proportions[0, c_d1]
lib_merged_rowprop = merged_slice.row_proportions[0, c_d2]

cp = slice_.column_proportions
rp = slice_.row_proportions
act_colprop = cp[r_top2, c_d1]
act_rowprop = rp[r_top2, c_d2]

failures = []


def same(a, b):
    return (np.isnan(a) and np.isnan(b)) or (
        not np.isnan(a) and not np.isnan(b) and abs(a - b) < 1e-9
    )


print("column_proportions, column 'Feb-Jan' (one-minus-one wave difference):")
print("   Very      :", cp[r_very, c_d1])
print("   Somewhat  :", cp[r_some, c_d1])
print("   Top2 (lib):", act_colprop)
print("   Top2 expected (merged data)        :", exp_colprop_top2_d1)
print("   Top2 lib on really-merged response :", lib_merged_colprop)
print("   sum of the addends' values         :", cp[r_very, c_d1] + cp[r_some, c_d1])
if not same(act_colprop, exp_colprop_top2_d1):
    failures.append("column_proportions[Top2, Feb-Jan]")

print("row_proportions, column 'FebMar-Jan' (several addends => NaN in every proportion):")
print("   Very      :", rp[r_very, c_d2])
print("   Somewhat  :", rp[r_some, c_d2])
print("   Top2 (lib):", act_rowprop)
print("   Top2 expected                      :", exp_rowprop_top2_d2)
print("   Top2 lib on really-merged response :", lib_merged_rowprop)
if not same(act_rowprop, exp_rowprop_top2_d2):
    failures.append("row_proportions[Top2, FebMar-Jan]")

if failures:
    print("PROPERTY VIOLATED (C04) at:", ", ".join(failures))
    sys.exit(1)
print("ok")
sys.exit(0)
