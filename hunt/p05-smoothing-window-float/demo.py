"""C20: a smoothing window is a number; a valid one (2 <= w <= periods) gives the trailing
moving average, any other one leaves the values unsmoothed. A window that arrives as a JSON
float (`"window": 3.0`, or a non-integral 2.5) raises TypeError instead.
"""
import sys; src = "/repo/src"; sys.path.insert(0, src); import cr; cr.__path__ = [src + "/cr"]
import json
import warnings

import numpy as np

from cr.cube.cube import Cube

warnings.simplefilter("ignore")
resp_text = open("/repo/tests/fixtures/cat-x-cat-date.json").read()


def smoothed(window_json):
    transforms = json.loads(
        '{"columns_dimension": {"smoother": {"function": "one_sided_moving_avg", "window": %s}}}'
        % window_json
    )
    return Cube(resp_text, transforms=transforms).partitions[0].smoothed_column_proportions


unsmoothed = Cube(resp_text).partitions[0].column_proportions
n_periods = unsmoothed.shape[1]


def trailing_mean(values, w):
    out = np.full(values.shape, np.nan)
    for t in range(w - 1, values.shape[1]):
        out[:, t] = values[:, t - w + 1 : t + 1].mean(axis=1)
    return out


bad = 0
for window_json, expected in (
    ("3", trailing_mean(unsmoothed, 3)),  # control
    ("3.0", trailing_mean(unsmoothed, 3)),  # the same number, written as a float
    ("2.5", unsmoothed),  # not a usable window -> unsmoothed, like 0, 1 or 100
    ("1.0", unsmoothed),  # below 2 -> unsmoothed (this one works: rejected before use)
):
    try:
        got = smoothed(window_json)
        ok = np.allclose(got, expected, equal_nan=True)
        print("window %-4s -> %s" % (window_json, "ok" if ok else "WRONG VALUES"))
        bad += not ok
    except Exception as e:  # noqa
        bad += 1
        print("window %-4s -> raised %s: %s" % (window_json, type(e).__name__, e))

sys.exit(1 if bad else 0)
