"""C10 (row/column/table std-err + moe of subtotal intersections): the standard error of the grand-total
cell (intersection of an all-rows subtotal with an all-columns subtotal) comes out NaN instead of 0, and
the NaN is orientation dependent.

The cell holds the whole table, so its row-, column- and table-proportion is exactly 1, the proportion
variance p(1-p) is 0 and the standard error / margin of error is 0.  `row_std_err` of A x B must equal
`column_std_err` of B x A (transposed).
"""
import sys; src = "/repo/src"; sys.path.insert(0, src); import cr; cr.__path__ = [src + "/cr"]

import numpy as np

from cr.cube.cube import Cube

W = np.array([[0.1, 2.3], [0.1, 0.7]])  # weighted counts
UW = np.array([[1, 23], [1, 7]])


def cat_dim(alias):
    return {
        "references": {"alias": alias, "name": alias.upper()},
        "type": {"class": "categorical", "ordinal": False,
                 "categories": [{"id": i, "name": "%s%d" % (alias, i), "missing": False, "numeric_value": None}
                                for i in (1, 2)]},
    }


def response(transposed):
    w, uw = (W.T, UW.T) if transposed else (W, UW)
    dims = [cat_dim("b"), cat_dim("a")] if transposed else [cat_dim("a"), cat_dim("b")]
    return {"query": {"weight": "https://x/w/"},
            "result": {"counts": [int(x) for x in uw.reshape(-1)], "dimensions": dims,
                       "measures": {"count": {"data": [float(x) for x in w.reshape(-1)], "n_missing": 0,
                                              "metadata": {"type": {"class": "numeric", "integer": False}}}},
                       "n": int(uw.sum()), "missing": 0, "element": "crunch:cube"}}


ALL = {"insertions": [{"function": "subtotal", "name": "ALL", "anchor": "bottom", "args": [1, 2], "id": 1}]}
T = {"rows_dimension": ALL, "columns_dimension": ALL}
ab = Cube(response(False), transforms=T).partitions[0]
ba = Cube(response(True), transforms=T).partitions[0]
assert list(ab.row_labels) == ["a1", "a2", "ALL"] and list(ab.column_labels) == ["b1", "b2", "ALL"]

failed = False
for name in ("row_std_err", "column_std_err", "table_std_err", "row_proportions_moe", "column_proportions_moe",
             "table_proportions_moe", "row_std_dev", "column_std_dev", "table_std_dev"):
    for tag, s in (("A x B", ab), ("B x A", ba)):
        got = getattr(s, name)[-1, -1]
        ok = abs(got) < 1e-6  # expected exactly 0; allow rounding noise, NaN is not a number near 0
        if not ok:
            failed = True
            print("FAIL  %s %s[ALL, ALL]: expected 0.0, got %r" % (tag, name, got))
for r, c in (("row_std_err", "column_std_err"), ("column_std_err", "row_std_err"), ("table_std_err", "table_std_err")):
    x, y = getattr(ab, r), getattr(ba, c).T
    if not np.allclose(x, y, equal_nan=True, atol=1e-6):
        failed = True
        print("FAIL  (A x B).%s != (B x A).%s.T\n%s\n%s" % (r, c, x, y))
print("violated" if failed else "ok")
sys.exit(1 if failed else 0)
