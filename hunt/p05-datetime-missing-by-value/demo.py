"""C19: a datetime element may be referenced by position id or by value, and a reference
that matches no (valid) element is ignored rather than raising.

A client that lists the elements of a datetime dimension BY VALUE (e.g. to reverse the
column order, to pin some columns, or to pick the sort column) naturally also lists the
value of the "No Data" element, which zz9 delivers as the dict {"?": -1}. Naming that
element by its position id is ignored (it is not a valid element); naming it by its value
raises `TypeError: unhashable type: 'dict'` as soon as any output is read.
"""
import sys; src = "/repo/src"; sys.path.insert(0, src); import cr; cr.__path__ = [src + "/cr"]
import copy
import json
import traceback

import numpy as np

from cr.cube.cube import Cube

resp = json.load(open("/repo/tests/fixtures/cat-x-datetime.json"))
result = resp.get("value", resp)["result"]
row_dim, col_dim = result["dimensions"]
cats = row_dim["type"]["categories"]
els = col_dim["type"]["elements"]

# ---- first principles: raw counts -> valid rows x valid columns
raw = np.array(result["counts"], dtype=float).reshape(len(cats), len(els))
valid_rows = [i for i, c in enumerate(cats) if not c.get("missing")]
valid_cols = [j for j, e in enumerate(els) if not e.get("missing")]
base = raw[np.ix_(valid_rows, valid_cols)]

values_reversed = [e["value"] for e in reversed(els)]  # starts with {"?": -1}
ids_reversed = [e["id"] for e in reversed(els)]  # starts with 4 (the missing one)
assert isinstance(values_reversed[0], dict)

failures = []


def check(name, transforms, expected_counts):
    try:
        slice_ = Cube(copy.deepcopy(resp), transforms=copy.deepcopy(transforms)).partitions[0]
        got = np.asarray(slice_.counts, dtype=float)
    except Exception as e:  # noqa
        failures.append(name)
        print("FAIL %-34s raised %s: %s" % (name, type(e).__name__, e))
        print("     " + traceback.format_exc().strip().splitlines()[-3].strip())
        return
    if got.shape != expected_counts.shape or not np.array_equal(got, expected_counts):
        failures.append(name)
        print("FAIL %-34s wrong counts\n%s\nexpected\n%s" % (name, got, expected_counts))
    else:
        print("ok   %s" % name)


rev = base[:, ::-1]
# --- control: the same lists spelled by position id work (missing element ignored)
check("explicit order, by id", {"columns_dimension": {"order": {"type": "explicit", "element_ids": ids_reversed}}}, rev)
# --- by value, without the missing element: works
check("explicit order, by value (valid only)", {"columns_dimension": {"order": {"type": "explicit", "element_ids": values_reversed[1:]}}}, rev)
# --- by value, all elements of the dimension listed: raises
check("explicit order, by value (all)", {"columns_dimension": {"order": {"type": "explicit", "element_ids": values_reversed}}}, rev)

# --- fixed list of a sort-by-label order: labels of this fixture sort like the values, so
# --- "descending by label, nothing really fixed" is the reversed order again
check(
    "sort by label, fixed.bottom by value",
    {"columns_dimension": {"order": {"type": "label", "direction": "descending", "fixed": {"bottom": [{"?": -1}]}}}},
    rev,
)
# --- sort rows by an opposing element that cannot be resolved -> payload order (C08/C19)
check(
    "rows by opposing element {'?': -1}",
    {"rows_dimension": {"order": {"type": "opposing_element", "element_id": {"?": -1}, "measure": "col_percent"}}},
    base,
)

if failures:
    print("\nDEFECT: %d of the by-value spellings raise instead of ignoring the missing element" % len(failures))
    sys.exit(1)
print("no defect")
sys.exit(0)
