"""C19: a transform reference to the *missing* ("No Data") element of a datetime dimension, written as
its position id, crashes with TypeError instead of being ignored.

The elements of a datetime dimension look like
    {"id": 0, "value": "2020-01"}, ..., {"id": 3, "value": {"?": -1}, "missing": true}
and a transform may refer to an element by position id or by value.  A position id that designates the
missing element matches no *valid* element, so - exactly like the id of a missing category of a
categorical dimension, or any stale id - it has to be ignored: hide/rename does nothing, explicit-order
and fixed lists skip it.  (Order lists saved by a client routinely enumerate *all* element ids.)
"""
import sys; src = "/repo/src"; sys.path.insert(0, src); import cr; cr.__path__ = [src + "/cr"]
import copy

import numpy as np

from cr.cube.cube import Cube

# --- CAT (2 valid + No Data) x DATETIME (3 valid months + No Data), unweighted ---
COUNTS = [
    # 2020-01 2020-02 2020-03 missing
    [11, 12, 13, 1],  # cat 1
    [21, 22, 23, 2],  # cat 2
    [0, 3, 0, 4],  # No Data
]
RESPONSE = {
    "query": {},
    "result": {
        "counts": [c for row in COUNTS for c in row],
        "dimensions": [
            {
                "references": {"alias": "pet", "name": "Pet"},
                "type": {
                    "class": "categorical",
                    "ordinal": False,
                    "categories": [
                        {"id": 1, "name": "Cat", "missing": False, "numeric_value": None},
                        {"id": 2, "name": "Dog", "missing": False, "numeric_value": None},
                        {"id": -1, "name": "No Data", "missing": True, "numeric_value": None},
                    ],
                },
            },
            {
                "references": {"alias": "wave", "name": "Wave"},
                "type": {
                    "class": "enum",
                    "subtype": {"class": "datetime", "resolution": "M"},
                    "elements": [
                        {"id": 0, "value": "2020-01", "missing": False},
                        {"id": 1, "value": "2020-02", "missing": False},
                        {"id": 2, "value": "2020-03", "missing": False},
                        {"id": 3, "value": {"?": -1}, "missing": True},
                    ],
                },
            },
        ],
        "measures": {
            "count": {
                "data": [c for row in COUNTS for c in row],
                "n_missing": 10,
                "metadata": {"type": {"class": "numeric", "integer": True}},
            }
        },
        "n": 112,
        "missing": 10,
        "element": "crunch:cube",
    },
}
VALID = np.array(COUNTS, dtype=float)[:2, :3]  # valid rows x valid columns, payload order
MISSING_ID = 3


def expected_counts(order_ids=(), hidden_ids=()):
    """Counts expected from first principles: position id -> column; unknown/missing ids ignored."""
    order = []
    for i in order_ids:
        i = int(i)
        if 0 <= i < 3 and i not in order:
            order.append(i)
    order += [i for i in range(3) if i not in order]
    hidden = {int(i) for i in hidden_ids}
    return VALID[:, [i for i in order if i not in hidden]]


CASES = [
    ("explicit order enumerating every element id, missing one included, ints",
     {"columns_dimension": {"order": {"type": "explicit", "element_ids": [2, MISSING_ID, 0, 1]}}},
     expected_counts(order_ids=[2, MISSING_ID, 0, 1])),
    ("explicit order, ids as strings",
     {"columns_dimension": {"order": {"type": "explicit", "element_ids": ["2", "3", "0", "1"]}}},
     expected_counts(order_ids=[2, 3, 0, 1])),
    ("hide keyed by the missing element's id (str, as in JSON) plus a valid id",
     {"columns_dimension": {"elements": {"3": {"hide": True}, "1": {"hide": True}}}},
     expected_counts(hidden_ids=[3, 1])),
    ("rename keyed by the missing element's id (int)",
     {"columns_dimension": {"elements": {MISSING_ID: {"name": "n/a"}}}},
     expected_counts()),
    ("fixed-top list holding the missing element's id; label sort descending",
     {"columns_dimension": {"order": {"type": "label", "direction": "descending",
                                      "fixed": {"top": [MISSING_ID, 0]}}}},
     VALID[:, [0, 2, 1]]),
    ("control: same transforms with a plainly stale id (99) are ignored",
     {"columns_dimension": {"order": {"type": "explicit", "element_ids": [2, 99, 0, 1]},
                            "elements": {"99": {"hide": True}}}},
     expected_counts(order_ids=[2, 0, 1])),
]

failed = False
for what, transforms, expected in CASES:
    try:
        got = Cube(copy.deepcopy(RESPONSE), transforms=transforms).partitions[0].counts
    except Exception as e:  # noqa
        failed = True
        print("FAIL  %s\n      transforms = %r\n      raised %s: %s" % (what, transforms, type(e).__name__, e))
        continue
    if got.shape != expected.shape or not np.array_equal(got, expected):
        failed = True
        print("FAIL  %s\n      expected %s\n      got      %s" % (what, expected.tolist(), got.tolist()))
    else:
        print("ok    %s" % what)

sys.exit(1 if failed else 0)
