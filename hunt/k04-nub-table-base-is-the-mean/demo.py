"""0-D response (mean of a numeric variable, no dimensions): the partition's `table_base`
is the *mean*, not the number of respondents."""
import sys

src = sys.argv[1] if len(sys.argv) > 1 else "/repo/src"
sys.path.insert(0, src)
import cr  # noqa

cr.__path__ = [src + "/cr"]

import math  # noqa
from cr.cube.cube import Cube, CubeSet  # noqa

# ---- the survey: 6 respondents, numeric x with one missing answer
x = [10.0, 20.0, 30.0, None, 40.0, 50.0]
valid = [v for v in x if v is not None]
mean = sum(valid) / len(valid)  # 30.0

meta = {"references": {"alias": "x", "name": "X"}, "derived": True,
        "type": {"class": "numeric", "integer": False, "missing_reasons": {"No Data": -1}, "missing_rules": {}}}
response = {
    "result": {
        "dimensions": [],
        "counts": [len(x)],
        "measures": {
            "mean": {"data": [mean], "n_missing": 1, "metadata": meta},
            "valid_count_unweighted": {"data": [len(valid)], "n_missing": 1, "metadata": meta},
        },
        "n": len(x), "missing": 1, "element": "crunch:cube",
        "filtered": {"unweighted_n": len(x), "weighted_n": len(x)},
        "unfiltered": {"unweighted_n": len(x), "weighted_n": len(x)},
    }
}

bad = False
for label, part in (
    ("Cube", Cube(response).partitions[0]),
    ("CubeSet", CubeSet([response], [{}], 0, 0).partition_sets[0][0]),
):
    base = float(part.table_base)
    count = float(part.unweighted_count)
    print("%s: means=%s unweighted_count=%s table_base=%s" % (label, float(part.means), count, base))
    # the base of a table is a number of respondents: the 5 valid ones (or, arguably, all 6)
    if base not in (float(len(valid)), float(len(x))):
        print("VIOLATION: table_base %s is neither the valid N (%d) nor the N (%d); it is the mean"
              % (base, len(valid), len(x)))
        bad = True
    if count != float(len(valid)):
        print("VIOLATION: unweighted_count %s != valid count %d" % (count, len(valid)))
        bad = True
sys.exit(1 if bad else 0)
