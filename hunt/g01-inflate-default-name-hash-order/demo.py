"""The row label / dimension name of an inflated numeric-summary cube changes from run to run.

A tab book whose rows are a numeric summary (mean, sum, ...) arrives without a rows dimension and is
padded with a one-row dimension.  When the measure metadata carries no name (`"references": {}`, as
in fixture econ-mean-no-dims.json) the row is named after the measures in the response.  The same
response must give the same result in every evaluation; here the name depends on the string-hash
seed of the interpreter (it is built by iterating over a frozenset of enum members).

This script evaluates the very same response in fresh interpreters with different PYTHONHASHSEED
values and compares what they report.
"""
import os
import subprocess
import sys

CHILD = r'''
import sys
src = "/repo/src"
sys.path.insert(0, src)
import cr
cr.__path__ = [src + "/cr"]
from cr.cube.cube import CubeSet


def response(dimensions, n):
    meta = {"references": {}, "derived": True, "type": {"class": "numeric"}}
    return {
        "result": {
            "dimensions": dimensions,
            "counts": [5] * n,
            "measures": {
                "count": {"data": [5] * n, "metadata": meta, "n_missing": 0},
                "mean": {"data": [2.5] * n, "metadata": meta, "n_missing": 0},
                "sum": {"data": [12.5] * n, "metadata": meta, "n_missing": 0},
                "stddev": {"data": [1.0] * n, "metadata": meta, "n_missing": 0},
            },
            "n": 5 * n,
        }
    }


gender = {
    "references": {"alias": "gender", "name": "Gender"},
    "type": {
        "class": "categorical",
        "categories": [
            {"id": 1, "name": "M", "missing": False},
            {"id": 2, "name": "F", "missing": False},
        ],
    },
}
cube_set = CubeSet([response([], 1), response([gender], 2)], [{}, {}], 0, 0)
strand, slice_ = cube_set.partition_sets[0]
print(strand.row_labels.tolist(), slice_.row_labels.tolist(), slice_.rows_dimension_name,
      slice_.rows_dimension_alias, cube_set.name, slice_.means.tolist())
'''


def main():
    outputs = {}
    for seed in range(8):
        env = dict(os.environ, PYTHONHASHSEED=str(seed))
        out = subprocess.run(
            [sys.executable, "-c", CHILD], env=env, capture_output=True, text=True, check=True
        ).stdout.strip()
        outputs.setdefault(out, []).append(seed)
    for out, seeds in outputs.items():
        print("PYTHONHASHSEED in %s -> %s" % (seeds, out))
    if len(outputs) > 1:
        print("MISMATCH: identical arguments, %d different results" % len(outputs))
        return 1
    return 0


if __name__ == "__main__":
    sys.exit(main())
