"""CAT x MR with `overlap` / `valid_overlap` measures: the "overlap-corrected" pairwise column test.

The library divides the difference of two *column proportions* by the standard error of the
difference of the two items' *selection rates* (#selected / #valid over the whole table), which
has nothing to do with the cell: it is the same for every row, ignores the column bases and the
cell proportions, and does not reduce to the ordinary two-sample test when no respondent is in
both columns (nothing to correct).  Result: t inflated several-fold, p ~ 0, spurious index sets.

Dataset below: 1000 respondents, item A selected by respondents 0..99, item B by 100..199,
NOBODY selects both, every item answered by everybody.  With zero overlap every overlap-corrected
variant of   t = (p_b - p_a) / sqrt(p_a(1-p_a)/n_a + p_b(1-p_b)/n_b)   is that formula itself.
"""
import sys

src = "/repo/src"
sys.path.insert(0, src)
import cr

cr.__path__ = [src + "/cr"]

import numpy as np
from scipy import stats
from cr.cube.cube import Cube

N = 1000
sel = np.zeros((N, 2), int)  # 1 selected, 0 not selected (no missing)
sel[:100, 0] = 1
sel[100:200, 1] = 1
row = np.zeros(N, int)  # 0 -> category id 1, 1 -> category id 2
row[50:100] = 1  # A-selectors: 50 / 50
row[160:200] = 1  # B-selectors: 60 / 40
row[600:] = 1  # everybody else 400 / 400


def response(with_overlap):
    n_items = sel.shape[1]
    states = [sel == 1, sel == 0, np.zeros_like(sel, bool)]  # selected, other, missing
    counts, ov, vo = [], [], []
    for r in (0, 1, None):  # two valid categories + the (empty) missing one
        in_row = (row == r) if r is not None else np.zeros(N, bool)
        for i in range(n_items):
            for st in states:
                cell = in_row & st[:, i]
                counts.append(int(cell.sum()))
                for j in range(n_items):
                    ov.append(int((cell & (sel[:, j] == 1)).sum()))
                    vo.append(int(cell.sum()))  # item j is never missing
    subrefs = [{"alias": "mr_%d" % (i + 1), "name": "item %d" % (i + 1)} for i in range(n_items)]
    sub_ids = ["000%d" % (i + 1) for i in range(n_items)]
    mr_refs = {"alias": "mr", "name": "MR", "subreferences": subrefs}
    num = {"class": "numeric", "integer": True, "missing_reasons": {"No Data": -1}, "missing_rules": {}}
    measures = {"count": {"metadata": {"type": num, "references": {}, "derived": True}, "data": counts, "n_missing": 0}}
    if with_overlap:
        for name, data in (("overlap", ov), ("valid_overlap", vo)):
            measures[name] = {
                "metadata": {"type": dict(num, subvariables=sub_ids), "references": mr_refs, "derived": True},
                "data": data,
                "n_missing": 0,
            }
    return {
        "result": {
            "n": N,
            "counts": counts,
            "missing": 0,
            "element": "crunch:cube",
            "measures": measures,
            "dimensions": [
                {
                    "type": {
                        "class": "categorical",
                        "ordinal": False,
                        "categories": [
                            {"id": 1, "name": "cat 1", "missing": False, "numeric_value": None},
                            {"id": 2, "name": "cat 2", "missing": False, "numeric_value": None},
                            {"id": -1, "name": "No Data", "missing": True, "numeric_value": None},
                        ],
                    },
                    "references": {"alias": "r", "name": "R"},
                    "derived": False,
                },
                {
                    "type": {
                        "class": "enum",
                        "subtype": {"class": "variable"},
                        "elements": [
                            {"id": i + 1, "missing": False, "value": {"id": sub_ids[i], "references": subrefs[i], "derived": False}}
                            for i in range(n_items)
                        ],
                    },
                    "references": mr_refs,
                    "derived": True,
                },
                {
                    "type": {
                        "class": "categorical",
                        "ordinal": False,
                        "subvariables": sub_ids,
                        "categories": [
                            {"id": 1, "name": "Selected", "numeric_value": 1, "selected": True, "missing": False},
                            {"id": 0, "name": "Other", "numeric_value": 0, "missing": False},
                            {"id": -1, "name": "No Data", "numeric_value": None, "missing": True},
                        ],
                    },
                    "references": mr_refs,
                    "derived": True,
                },
            ],
        }
    }


# ---- first principles: compare P(cat 1 | selected A) with P(cat 1 | selected B)
A, B = sel[:, 0] == 1, sel[:, 1] == 1
assert (A & B).sum() == 0  # no respondent is in both columns
n_a, n_b = A.sum(), B.sum()
exp_t = np.zeros(2)
exp_p = np.zeros(2)
for r in (0, 1):
    p_a, p_b = (row[A] == r).mean(), (row[B] == r).mean()
    exp_t[r] = (p_b - p_a) / np.sqrt(p_a * (1 - p_a) / n_a + p_b * (1 - p_b) / n_b)
    exp_p[r] = 2 * (1 - stats.t.cdf(abs(exp_t[r]), df=n_a + n_b - 2))

plain = Cube(response(False)).partitions[0]
ovl = Cube(response(True), transforms={"pairwise_indices": {"only_larger": True}}).partitions[0]
print("column proportions            :", ovl.column_proportions.tolist())
print("expected t (B vs A) per row   :", exp_t.round(4).tolist(), " p:", exp_p.round(4).tolist())
print("library, no overlap measure   :", plain.pairwise_significance_t_stats(0)[:, 1].round(4).tolist(),
      " p:", plain.pairwise_significance_p_vals(0)[:, 1].round(4).tolist())
print("library, with overlap measure :", ovl.pairwise_significance_t_stats(0)[:, 1].round(4).tolist(),
      " p:", ovl.pairwise_significance_p_vals(0)[:, 1].tolist())
print("pairwise_indices (overlap)    :", ovl.pairwise_indices.tolist(), " expected all empty")

ok = True
if not np.allclose(ovl.pairwise_significance_t_stats(0)[:, 1], exp_t, rtol=1e-6):
    ok = False
if not np.allclose(ovl.pairwise_significance_p_vals(0)[:, 1], exp_p, rtol=1e-6, atol=1e-12):
    ok = False
if any(len(x) for x in ovl.pairwise_indices.ravel()):
    ok = False
sys.exit(0 if ok else 1)
