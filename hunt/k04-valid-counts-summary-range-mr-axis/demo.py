"""Cube.valid_counts_summary_range sums over the wrong axis when an MR dimension precedes a CAT one.

The summary is documented as "the valid counts summed over all the non-array dimensions":
one total per array item (for an MR: per item and selected/other answer), of which the
(min, max) range is reported.  Transposing the response must not change that scalar pair.
"""
import sys

src = sys.argv[1] if len(sys.argv) > 1 else "/repo/src"
sys.path.insert(0, src)
import cr  # noqa

cr.__path__ = [src + "/cr"]

import numpy as np  # noqa
from cr.cube.cube import Cube, CubeSet  # noqa

# ---------------------------------------------------------------- the survey (12 respondents)
# categorical variable "cat": category ids 1, 2, 3 (none missing)
cat = [1, 1, 1, 1, 1, 1, 2, 2, 2, 3, 3, 3]
# multiple response "mr", two items; 1 = selected, 0 = other, -1 = missing
mr = [
    [1, 0], [1, 0], [1, 1], [1, 1], [0, 1], [0, -1],
    [1, 0], [0, 0], [0, 1], [0, 0], [-1, 1], [0, 1],
]
# numeric variable "x"; None = missing
x = [3.0, 4.0, None, 1.0, 2.0, 5.0, 6.0, None, 2.5, 1.5, 3.5, 4.5]

CAT_IDS = [1, 2, 3]
MR_CODES = [1, 0, -1]


def cat_dim():
    return {
        "references": {"alias": "cat", "name": "Cat"},
        "derived": False,
        "type": {
            "class": "categorical",
            "ordinal": False,
            "categories": [
                {"id": i, "name": "c%d" % i, "missing": False, "numeric_value": None}
                for i in CAT_IDS
            ],
        },
    }


def mr_dims():
    subrefs = [{"alias": "mr_1", "name": "item 1"}, {"alias": "mr_2", "name": "item 2"}]
    refs = {"alias": "mr", "name": "MR", "subreferences": subrefs}
    return [
        {
            "references": refs,
            "derived": True,
            "type": {
                "class": "enum",
                "subtype": {"class": "variable"},
                "elements": [
                    {"id": k + 1, "missing": False,
                     "value": {"id": "000%d" % (k + 1), "derived": False, "references": subrefs[k]}}
                    for k in range(2)
                ],
            },
        },
        {
            "references": refs,
            "derived": True,
            "type": {
                "class": "categorical",
                "ordinal": False,
                "subvariables": ["0001", "0002"],
                "categories": [
                    {"id": 1, "name": "Selected", "missing": False, "numeric_value": 1, "selected": True},
                    {"id": 0, "name": "Other", "missing": False, "numeric_value": 0},
                    {"id": -1, "name": "No Data", "missing": True, "numeric_value": None},
                ],
            },
        },
    ]


def cells(mr_first):
    """(counts, valid counts, means) in payload order for MR x CAT or CAT x MR."""
    counts, valid, mean = [], [], []

    def cell(c, k, code):
        rows = [i for i in range(len(x)) if cat[i] == c and mr[i][k] == code]
        xs = [x[i] for i in rows if x[i] is not None]
        counts.append(len(rows))
        valid.append(len(xs))
        mean.append(sum(xs) / len(xs) if xs else {"?": -8})

    if mr_first:
        for k in range(2):
            for code in MR_CODES:
                for c in CAT_IDS:
                    cell(c, k, code)
    else:
        for c in CAT_IDS:
            for k in range(2):
                for code in MR_CODES:
                    cell(c, k, code)
    return counts, valid, mean


def response(mr_first):
    counts, valid, mean = cells(mr_first)
    meta = {"references": {"alias": "x", "name": "X"}, "derived": True,
            "type": {"class": "numeric", "integer": False, "missing_reasons": {"No Data": -1}, "missing_rules": {}}}
    n_missing = sum(1 for v in x if v is None)
    return {
        "result": {
            "dimensions": (mr_dims() + [cat_dim()]) if mr_first else ([cat_dim()] + mr_dims()),
            "counts": counts,
            "measures": {
                "mean": {"data": mean, "n_missing": n_missing, "metadata": meta},
                "valid_count_unweighted": {"data": valid, "n_missing": n_missing, "metadata": meta},
            },
            "n": len(x),
            "missing": 0,
            "element": "crunch:cube",
            "filtered": {"unweighted_n": len(x), "weighted_n": len(x)},
            "unfiltered": {"unweighted_n": len(x), "weighted_n": len(x)},
        }
    }


# ---------------------------------------------------------------- first-principles expectation
# valid counts summed over the (only) non-array dimension "cat": one total for each MR item and
# each valid MR answer (selected / other) = respondents having that answer and a valid x.
totals = [
    sum(1 for i in range(len(x)) if mr[i][k] == code and x[i] is not None)
    for k in range(2)
    for code in (1, 0)
]
expected = (min(totals), max(totals))

got_cat_x_mr = tuple(float(v) for v in Cube(response(mr_first=False)).valid_counts_summary_range)
got_mr_x_cat = tuple(float(v) for v in Cube(response(mr_first=True)).valid_counts_summary_range)
got_set = tuple(
    float(v) for v in CubeSet([response(mr_first=True)], [{}], 0, 0).valid_counts_summary_range
)

print("per (item, answer) totals of valid x over all categories:", totals)
print("expected (min, max)            :", expected)
print("CAT x MR  valid_counts_summary :", got_cat_x_mr)
print("MR x CAT  valid_counts_summary :", got_mr_x_cat, "(CubeSet: %s)" % (got_set,))

bad = False
if got_cat_x_mr != tuple(map(float, expected)):
    print("VIOLATION: CAT x MR differs from the expected range")
    bad = True
if got_mr_x_cat != tuple(map(float, expected)):
    print("VIOLATION: MR x CAT differs from the expected range (it summed the selected/other "
          "axis instead of the categories axis)")
    bad = True
if got_mr_x_cat != got_cat_x_mr:
    print("VIOLATION: transposing the response changed the scalar summary")
    bad = True
sys.exit(1 if bad else 0)
