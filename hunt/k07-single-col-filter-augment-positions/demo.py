"""Single-column-filter augmentation puts the filter counts on the wrong rows (or raises
IndexError) when the rows variable's element ids are not 0-based positions - e.g. a binned
numeric rows variable, whose bins are numbered 1..n and whose missing element comes first
(as in tests/fixtures/num-binned.json, cat-x-num-hs-prune.json, age-x-accrpipe.json).

Usage: demo.py [path-to-src]   (default /repo/src)
Exit 1 when the library violates C01, 0 otherwise.
"""
import sys

src = sys.argv[1] if len(sys.argv) > 1 else "/repo/src"
sys.path.insert(0, src)
import cr

cr.__path__ = [src + "/cr"]
import numpy as np
from cr.cube.cube import CubeSet

# ---------------------------------------------------------------- the survey
# age (binned into 4 bins, None = no answer) and a filter flag for every respondent
BINS = [[0, 5], [5, 10], [10, 15], [15, 20]]
#            age-bin  in-filter
RESPONDENTS = [
    (0, False), (0, False), (0, False),
    (1, True), (1, True), (1, False),
    (2, False), (2, False), (2, False), (2, False),
    (3, True),
    (None, True), (None, False),
]


def numeric_dim(elements):
    return {
        "references": {"alias": "age", "name": "Age"},
        "type": {
            "class": "enum",
            "elements": elements,
            "subtype": {"class": "numeric", "missing_reasons": {"No Data": -1}, "missing_rules": {}},
        },
    }


def count(bin_idx, only_filtered):
    return sum(1 for b, f in RESPONDENTS if b == bin_idx and (f or not only_filtered))


def build(leading_missing):
    """(summary response, single-column-filter response) as zz9 delivers them for a tabbook."""
    missing_el = {"id": -1, "value": {"?": -1}, "missing": True}
    bin_els = [{"id": i + 1, "value": BINS[i], "missing": False} for i in range(4)]
    # --- summary cube: every bin of the rows variable
    s_els = ([missing_el] if leading_missing else []) + bin_els
    s_counts = ([count(None, False)] if leading_missing else []) + [count(i, False) for i in range(4)]
    summary = {
        "result": {
            "dimensions": [numeric_dim(s_els)],
            "counts": s_counts,
            "measures": {"count": {"data": list(s_counts), "n_missing": 0, "metadata": {}}},
            "n": len(RESPONDENTS),
            "missing": count(None, False) if leading_missing else 0,
        }
    }
    # --- filter cube: only the bins that have at least one filtered respondent
    present = [i for i in range(4) if count(i, True) > 0]
    f_els = ([missing_el] if leading_missing else []) + [bin_els[i] for i in present]
    f_counts = ([count(None, True)] if leading_missing else []) + [count(i, True) for i in present]
    filt = {
        "result": {
            "is_single_col_cube": True,
            "dimensions": [numeric_dim(f_els)],
            "counts": f_counts,
            "measures": {"count": {"data": list(f_counts), "n_missing": 0, "metadata": {}}},
            "n": sum(1 for _, f in RESPONDENTS if f),
            "missing": count(None, True) if leading_missing else 0,
        }
    }
    return summary, filt


expected_rows = [count(i, False) for i in range(4)]  # [3, 3, 4, 1]
expected_filter = [count(i, True) for i in range(4)]  # [0, 2, 0, 1]
failed = False
for leading_missing in (True, False):
    summary, filt = build(leading_missing)
    shape = "missing element first (ids -1,1,2,3,4)" if leading_missing else "no missing element (ids 1,2,3,4)"
    try:
        strand, filter_strand = CubeSet([summary, filt], [{}, {}], None, 0).partition_sets[0]
        got_rows = strand.unweighted_counts.tolist()
        got_filter = filter_strand.unweighted_counts.tolist()
        labels = filter_strand.row_labels.tolist()
    except Exception as e:  # noqa
        print("%s: library raised %r" % (shape, e))
        failed = True
        continue
    ok = got_rows == expected_rows and got_filter == expected_filter
    print("%s:" % shape)
    print("   row labels        ", labels)
    print("   rows-summary      ", got_rows, "expected", expected_rows)
    print("   filter column     ", got_filter, "expected", expected_filter, "" if ok else "  <-- WRONG")
    failed = failed or not ok

sys.exit(1 if failed else 0)
