"""C17: a JSON-null filter-statistics object crashes every population estimate.

The population fraction is specified as "1 when unspecified". The cascade copes with a missing key
(`{}` default) and with null *leaves* (`"weighted": null`, `"weighted_n": null` -> 1.0), but when the
response carries the container itself as JSON null -- `"filter_stats": null`, `"filtered_complete": null`,
`"filtered": null` or `"unfiltered": null` -- it calls `.get()` on None and raises AttributeError from
`population_fraction`, `population_counts` and `population_counts_moe`.
"""
import sys; src = "/repo/src"; sys.path.insert(0, src); import cr; cr.__path__ = [src + "/cr"]
import copy
import numpy as np
from cr.cube.cube import Cube

counts = np.array([[10.0, 20.0, 0.0], [30.0, 40.0, 0.0], [0.0, 0.0, 0.0]])


def cat_dim(alias):
    return {
        "derived": False,
        "references": {"alias": alias, "name": alias},
        "type": {
            "categories": [
                {"id": 1, "missing": False, "name": "A"},
                {"id": 2, "missing": False, "name": "B"},
                {"id": -1, "missing": True, "name": "No Data"},
            ],
            "class": "categorical",
            "ordinal": False,
        },
    }


base = {
    "result": {
        "counts": counts.flatten().tolist(),
        "dimensions": [cat_dim("r"), cat_dim("c")],
        "element": "crunch:cube",
        "measures": {
            "count": {
                "data": counts.flatten().tolist(),
                "metadata": {
                    "derived": True,
                    "references": {},
                    "type": {
                        "class": "numeric",
                        "integer": True,
                        "missing_reasons": {"No Data": -1},
                        "missing_rules": {},
                    },
                },
                "n_missing": 0,
            }
        },
        "missing": 0,
        "n": 100,
    }
}
POPULATION = 5000
valid = counts[:2, :2]

# (label, extra result keys, expected fraction from the statement)
cases = [
    ("filter stats absent", {}, 1.0),
    ("null leaf: weighted_n null", {"filtered": {"weighted_n": None}, "unfiltered": {"weighted_n": None}}, 1.0),
    ("null leaf: complete-case weighted null", {"filter_stats": {"filtered_complete": {"weighted": None}}}, 1.0),
    ("filter_stats null, nothing else", {"filter_stats": None}, 1.0),
    (
        "filter_stats null, old style present",
        {"filter_stats": None, "filtered": {"weighted_n": 25.0}, "unfiltered": {"weighted_n": 100.0}},
        0.25,
    ),
    ("filtered_complete null", {"filter_stats": {"filtered_complete": None}}, 1.0),
    ("filtered / unfiltered null", {"filtered": None, "unfiltered": None}, 1.0),
]

failures = 0
for label, extra, fraction in cases:
    cube_dict = copy.deepcopy(base)
    cube_dict["result"].update(extra)
    expected = valid / valid.sum() * POPULATION * fraction
    try:
        slice_ = Cube(cube_dict, population=POPULATION).partitions[0]
        got_fraction = slice_.population_fraction
        got = slice_.population_counts
        slice_.population_counts_moe
    except Exception as e:  # noqa
        failures += 1
        print("%-42s -> CRASH %s: %s" % (label, type(e).__name__, e))
        continue
    ok = got_fraction == fraction and np.allclose(got, expected)
    print("%-42s -> fraction %s (expected %s) %s" % (label, got_fraction, fraction, "ok" if ok else "WRONG"))
    failures += 0 if ok else 1

if failures:
    print("VIOLATION: %d filter-statistics shapes break the population estimates" % failures)
    sys.exit(1)
print("OK")
sys.exit(0)
