"""Sorting rows by the `median` measure crashes every read of the slice (NotImplementedError),
whether or not the response carries medians; a strand silently ignores the same sort.

Expected (C08): with a median measure in the response, rows sorted by the medians of the
chosen column (descending, NaN last); without one, fall back to the payload order - never fail.
Exit 1 when the library violates this, 0 otherwise.
"""
import os
import sys

src = os.environ.get("CRCUBE_SRC", "/repo/src")
sys.path.insert(0, src)
import cr  # noqa

cr.__path__ = [src + "/cr"]

import numpy as np  # noqa
from cr.cube.cube import Cube  # noqa


def cat_dim(alias, ids):
    return {
        "references": {"alias": alias, "name": alias.upper()},
        "type": {
            "class": "categorical",
            "categories": [
                {"id": i, "name": "%s%d" % (alias, i), "missing": False, "numeric_value": None}
                for i in ids
            ],
        },
    }


def measure(data):
    return {
        "data": [{"?": -8} if x is None else x for x in data],
        "n_missing": 0,
        "metadata": {"derived": True, "references": {"alias": "x", "name": "X"},
                     "type": {"class": "numeric", "integer": False}},
    }


# respondents: (row, col, x)
DATA = [(1, 1, 5.0), (1, 1, 7.0), (1, 2, 1.0), (2, 1, 9.0), (2, 2, 2.0), (2, 2, 4.0),
        (3, 1, 1.0), (3, 1, 2.0), (3, 1, 3.0), (3, 2, 8.0)]
ROWS, COLS = [1, 2, 3], [1, 2]


def cells(fn):
    out = []
    for r in ROWS:
        for c in COLS:
            xs = [x for (rr, cc, x) in DATA if rr == r and cc == c]
            out.append(fn(xs) if xs else None)
    return out


def response_2d(with_median):
    counts = cells(len)
    measures = {"count": {"data": counts, "n_missing": 0, "metadata": {}}}
    if with_median:
        measures["median"] = measure(cells(lambda xs: float(np.median(xs))))
        measures["valid_count_unweighted"] = {"data": counts, "n_missing": 0, "metadata": {}}
    else:
        measures["mean"] = measure(cells(lambda xs: float(np.mean(xs))))
    return {"result": {"dimensions": [cat_dim("r", ROWS), cat_dim("c", COLS)],
                       "counts": counts, "measures": measures, "n": len(DATA), "missing": 0}}


def response_1d():
    counts, meds = [], []
    for r in ROWS:
        xs = [x for (rr, cc, x) in DATA if rr == r]
        counts.append(len(xs))
        meds.append(float(np.median(xs)))
    return {"result": {"dimensions": [cat_dim("r", ROWS)], "counts": counts, "n": len(DATA), "missing": 0,
                       "measures": {"median": measure(meds),
                                    "valid_count_unweighted": {"data": counts, "n_missing": 0, "metadata": {}}}}}


bad = False
transforms = {"rows_dimension": {"order": {"type": "opposing_element", "element_id": 1,
                                             "measure": "median", "direction": "descending"}}}

# --- (1) response with medians: rows ordered by median of column 1, descending -----------
col1 = {r: float(np.median([x for (rr, cc, x) in DATA if rr == r and cc == 1])) for r in ROWS}
expected_order = [ROWS.index(r) for r in sorted(ROWS, key=lambda r: -col1[r])]  # [1, 0, 2]
try:
    slice_ = Cube(response_2d(True), transforms=transforms).partitions[0]
    got = [int(i) for i in slice_.row_order()]
    print("slice with medians   : row order", got, "expected", expected_order,
          "medians col 1:", slice_.medians[:, 0].tolist())
    bad |= got != expected_order
except Exception as e:
    print("slice with medians   : %s: %s   (expected row order %s)" % (type(e).__name__, e, expected_order))
    bad = True

# --- (2) response without medians: the sort key cannot be resolved => payload order -------
try:
    slice_ = Cube(response_2d(False), transforms=transforms).partitions[0]
    got = [int(i) for i in slice_.row_order()]
    print("slice without medians: row order", got, "expected payload order [0, 1, 2]")
    bad |= got != [0, 1, 2]
except Exception as e:
    print("slice without medians: %s: %s   (expected payload order [0, 1, 2])" % (type(e).__name__, e))
    bad = True

# --- (3) strand sorted by its own median measure -------------------------------------------
tr1 = {"rows_dimension": {"order": {"type": "univariate_measure", "measure": "median",
                                    "direction": "ascending"}}}
med = {r: float(np.median([x for (rr, cc, x) in DATA if rr == r])) for r in ROWS}
exp1 = [ROWS.index(r) for r in sorted(ROWS, key=lambda r: med[r])]  # ascending: [2, 1, 0]
try:
    strand = Cube(response_1d(), transforms=tr1).partitions[0]
    got = [int(i) for i in strand.row_order()]
    print("strand with medians  : row order", got, "expected", exp1, "medians:", strand.medians.tolist())
    bad |= got != exp1
except Exception as e:
    print("strand with medians  : %s: %s" % (type(e).__name__, e))
    bad = True

sys.exit(1 if bad else 0)
