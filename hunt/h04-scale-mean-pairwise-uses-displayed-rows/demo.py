"""columns_scale_mean_pairwise_indices changes (or crashes) when a row is hidden.

CAT (3 categories with numeric values 1, 2, 3) x CAT (3 columns), unweighted.

`columns_scale_mean_pairwise_indices[j]` lists the columns whose scale mean differs significantly from
column j's (two-sample pooled-variance t-test on the category numeric values).  It is a column-wise,
position-valued output: hiding a *row* changes neither the columns nor the respondents that make up each
column, so by C05 it must not change at all (hidden elements still count in every base and margin).
"""
import sys

src = "/repo/src"
sys.path.insert(0, src)
import cr  # noqa: E402

cr.__path__ = [src + "/cr"]

import numpy as np  # noqa: E402
from scipy.stats import t as t_dist  # noqa: E402

from cr.cube.cube import Cube  # noqa: E402

VALUES = np.array([1.0, 2.0, 3.0])  # numeric value of each row category
COUNTS = np.array(
    [
        [30, 10, 12],  # value 1
        [10, 10, 10],  # value 2
        [5, 30, 12],  # value 3
    ]
)


def response():
    def dim(alias, n, numeric):
        return {
            "references": {"alias": alias, "name": alias.upper(), "description": alias},
            "type": {
                "class": "categorical",
                "ordinal": False,
                "categories": [
                    {
                        "id": i + 1,
                        "name": "%s%d" % (alias, i + 1),
                        "missing": False,
                        "numeric_value": (float(VALUES[i]) if numeric else None),
                    }
                    for i in range(n)
                ]
                + [{"id": -1, "name": "No Data", "missing": True, "numeric_value": None}],
            },
        }

    raw = np.zeros((4, 4), dtype=int)
    raw[:3, :3] = COUNTS
    return {
        "result": {
            "dimensions": [dim("r", 3, True), dim("c", 3, False)],
            "counts": raw.ravel().tolist(),
            "measures": {
                "count": {"data": [float(x) for x in raw.ravel()], "n_missing": 0, "metadata": {}}
            },
            "n": int(raw.sum()),
            "missing": 0,
            "element": "crunch:cube",
        }
    }


def expected_indices(alpha=0.05, only_larger=True):
    """Pairwise pooled-variance t-test of the column scale means, from the raw counts."""
    n = COUNTS.sum(axis=0).astype(float)
    mean = (VALUES[:, None] * COUNTS).sum(axis=0) / n
    var = (COUNTS * (VALUES[:, None] - mean) ** 2).sum(axis=0) / n
    out = []
    for j in range(COUNTS.shape[1]):
        sd = np.sqrt(((n[j] - 1) * var[j] + (n - 1) * var) / (n[j] + n - 2))
        with np.errstate(divide="ignore", invalid="ignore"):
            tstat = (mean - mean[j]) / (sd * np.sqrt(1 / n[j] + 1 / n))
        p = 2 * (1 - t_dist.cdf(np.abs(tstat), df=n[j] + n - 2))
        sig = p < alpha
        if only_larger:
            sig = np.logical_and(tstat < 0, sig)
        out.append(tuple(int(k) for k in np.where(sig)[0]))
    return tuple(out)


def lib(transforms):
    slice_ = Cube(response(), transforms=transforms).partitions[0]
    try:
        return (
            tuple(tuple(int(k) for k in tup) for tup in slice_.columns_scale_mean_pairwise_indices),
            slice_.columns_scale_mean.tolist(),
            [int(i) for i in slice_.column_order()],
        )
    except Exception as e:  # noqa
        return e, slice_.columns_scale_mean.tolist(), [int(i) for i in slice_.column_order()]


EXPECTED = expected_indices()
print("expected (first principles, all respondents):", EXPECTED)

failed = False
cases = [
    ("no transforms", {}),
    ("row 1 hidden", {"rows_dimension": {"elements": {"1": {"hide": True}}}}),
    ("row 3 hidden", {"rows_dimension": {"elements": {"3": {"hide": True}}}}),
    (
        "all rows hidden",
        {"rows_dimension": {"elements": {str(i): {"hide": True} for i in (1, 2, 3)}}},
    ),
]
for name, transforms in cases:
    got, scale_means, col_order = lib(transforms)
    ok = got == EXPECTED
    print(
        "%-16s column_order=%s columns_scale_mean=%s\n%17s-> %r %s"
        % (name, col_order, np.round(scale_means, 4).tolist(), "", got, "" if ok else "  <-- VIOLATION")
    )
    failed = failed or not ok

sys.exit(1 if failed else 0)
