"""A subtotal whose anchor is a string that is neither "top"/"bottom" nor an integer makes the anchored
(payload / explicit) ordering raise ValueError, although an anchor that "no longer exists" must send the
subtotal to the bottom (C07) - which is what happens for a stale int id, for None, and (same input!) what
the library's own id-numbering of view insertions and the sort-by-value collators assume.

Expected order is computed here from the C07 rule.
"""
import sys; src = "/repo/src"; sys.path.insert(0, src); import cr; cr.__path__ = [src + "/cr"]
import copy
import json
import numpy as np
from cr.cube.cube import Cube


def cat_dim(alias, cats, view="absent"):
    refs = {"alias": alias, "name": alias}
    if view != "absent":
        refs["view"] = view
    return {
        "type": {
            "class": "categorical",
            "ordinal": False,
            "categories": [
                {"id": i, "name": n, "missing": False, "numeric_value": None}
                for i, n in cats
            ]
            + [{"id": -1, "name": "No Data", "missing": True, "numeric_value": None}],
        },
        "references": refs,
    }


ROWS = [(1, "a"), (2, "b"), (3, "c")]
COLS = [(1, "x"), (2, "y")]
TABLE = [[10, 20], [30, 5], [7, 8]]


def response(row_view="absent", ndim=2):
    if ndim == 1:
        data = [sum(r) for r in TABLE] + [0]
        dims = [cat_dim("R", ROWS, row_view)]
    else:
        data = []
        for r in TABLE:
            data += list(r) + [0]
        data += [0] * (len(COLS) + 1)
        dims = [cat_dim("R", ROWS, row_view), cat_dim("C", COLS)]
    n = sum(data)
    return {
        "result": {
            "dimensions": dims,
            "counts": data,
            "measures": {"count": {"data": data, "n_missing": 0, "metadata": {}}},
            "n": n,
            "missing": 0,
            "unfiltered": {"unweighted_n": n, "weighted_n": n},
            "filtered": {"unweighted_n": n, "weighted_n": n},
        }
    }


def insertions(anchor):
    return [
        {"function": "subtotal", "name": "S", "anchor": anchor, "args": [1, 2]},
        {"function": "subtotal", "name": "T", "anchor": 1, "args": [2, 3]},
    ]


def expected_labels(anchor, explicit=None):
    """C07: T right after its anchor 'a'; S after its anchor, else top/bottom, else (no such anchor) bottom."""
    ids = [i for i, _ in ROWS]
    base = [i for i in (explicit or []) if i in ids] + [i for i in ids if i not in (explicit or [])]
    name = dict(ROWS)
    try:
        a = int(anchor)
        a = a if a in ids else "bottom"
    except (TypeError, ValueError):
        a = anchor.lower() if isinstance(anchor, str) and anchor.lower() in ("top", "bottom") else "bottom"
    out = ["S"] if a == "top" else []
    for i in base:
        out.append(name[i])
        if i == 1:
            out.append("T")
        if a == i:
            out.append("S")
    if a == "bottom":
        out.append("S")
    return out


bad = 0


def check(desc, make, exp):
    global bad
    try:
        got = make().row_labels.tolist()
        ok = got == exp
        print("%-6s %-62s %s" % ("ok" if ok else "WRONG", desc, got))
        bad += not ok
    except Exception as e:  # noqa
        bad += 1
        print("RAISES %-62s %s: %s   (expected %s)" % (desc, type(e).__name__, e, exp))


for anchor in [99, None, "Bottom", "3", "middle", "after", "3.0", "v1_cat_3"]:
    a = json.dumps(anchor)
    check("slice, analysis insertions, anchor %s" % a,
          lambda: Cube(response(), transforms={"rows_dimension": {"insertions": insertions(anchor)}}).partitions[0],
          expected_labels(anchor))
    check("slice, variable insertions, explicit order, anchor %s" % a,
          lambda: Cube(response({"transform": {"insertions": insertions(anchor)}}),
                       transforms={"rows_dimension": {"order": {"type": "explicit", "element_ids": [3, 1]}}}).partitions[0],
          expected_labels(anchor, [3, 1]))
    check("strand, variable insertions, anchor %s" % a,
          lambda: Cube(response({"transform": {"insertions": insertions(anchor)}}, ndim=1)).partitions[0],
          expected_labels(anchor))

# --- for contrast: the very same transform is accepted when the dimension is sorted by value
s = Cube(response(), transforms={"rows_dimension": {
    "insertions": insertions("middle"), "order": {"type": "label", "direction": "ascending"}}}).partitions[0]
print("info   same insertions under a sort-by-label order:", s.row_labels.tolist())

sys.exit(1 if bad else 0)
