"""Sorting by a derived ('any selected') multiple-response item works for ROWS (CAT x MR, rows ordered
by the derived MR column) but the mirror image - MR x CAT, COLUMNS ordered by the derived MR row - is
silently ignored: the columns stay in payload order.

PROPERTY C10 (transposing the response and mirroring the transforms transposes the result) and C08
(under a sort-by-value transform by opposing insertion the visible elements are monotone in the
measure, for rows and columns alike).

Usage: demo.py [SRC]
"""
import sys

src = sys.argv[1] if len(sys.argv) > 1 else "/repo/src"
sys.path.insert(0, src)
import cr

cr.__path__ = [src + "/cr"]

import copy
import json

import numpy as np

from cr.cube.cube import Cube

FIX = "/repo/tests/fixtures/mr_insertions/"
with open(FIX + "cat-x-mr.json") as f:
    CAT_X_MR = json.load(f)


def transposed(response):
    """The same survey tabulated the other way round: MR x CAT."""
    resp = copy.deepcopy(response)
    res = resp["result"]
    cat_dim, mr_items, mr_sel = res["dimensions"]
    shape = tuple(
        len(d["type"].get("categories") or d["type"].get("elements"))
        for d in res["dimensions"]
    )
    res["dimensions"] = [mr_items, mr_sel, cat_dim]

    def t(data):
        return np.array(data).reshape(shape).transpose(1, 2, 0).flatten().tolist()

    res["counts"] = t(res["counts"])
    for name, m in res["measures"].items():
        if name in ("overlap", "valid_overlap"):
            continue
        m["data"] = t(m["data"])
    for name in ("overlap", "valid_overlap"):
        res["measures"].pop(name, None)
    return resp


MR_X_CAT = transposed(CAT_X_MR)

# --- the derived item of the MR dimension
mr_dim = CAT_X_MR["result"]["dimensions"][1]
derived = [e for e in mr_dim["type"]["elements"] if e["value"].get("derived")][0]
derived_alias = derived["value"]["references"]["alias"]

bad = 0
for direction in ("descending", "ascending"):
    order = {
        "type": "opposing_insertion",
        "insertion_id": derived_alias,
        "measure": "count_weighted",
        "direction": direction,
    }
    a = Cube(copy.deepcopy(CAT_X_MR), transforms={"rows_dimension": {"order": order}}).partitions[0]
    b = Cube(copy.deepcopy(MR_X_CAT), transforms={"columns_dimension": {"order": order}}).partitions[0]

    # --- first principles: weighted count of each category among the derived item, straight from
    # --- the payload: cell (cat, derived item, "selected")
    res = CAT_X_MR["result"]
    n_items = len(mr_dim["type"]["elements"])
    data = np.array(res["measures"]["count"]["data"]).reshape(-1, n_items, 3)
    d_idx = [e["id"] for e in mr_dim["type"]["elements"]].index(derived["id"])
    cats = [c for c in res["dimensions"][0]["type"]["categories"]]
    key = {c["name"]: data[i, d_idx, 0] for i, c in enumerate(cats) if not c.get("missing")}
    expected = [
        name
        for name, _ in sorted(
            key.items(), key=lambda kv: kv[1], reverse=(direction == "descending")
        )
    ]
    rows_sorted = a.row_labels.tolist()
    cols_sorted = b.column_labels.tolist()
    vals = [float(key[n]) for n in cols_sorted]
    print("direction:", direction)
    print("  expected order (by weighted count within %r): %s" % (derived_alias, expected))
    print("  CAT x MR, rows sorted    :", rows_sorted, "ok" if rows_sorted == expected else "WRONG")
    print("  MR x CAT, columns sorted :", cols_sorted, "values", vals,
          "ok" if cols_sorted == expected else "<-- not sorted (payload order)")
    if rows_sorted != expected or cols_sorted != expected:
        bad += 1
    if not np.allclose(a.counts, b.counts.T):
        print("  counts of the transposed analysis are not the transpose")

sys.exit(1 if bad else 0)
