"""C08: sort by a '*_std_dev' measure uses the proportion *variance* as a "monotone surrogate",
but the public std-dev is sqrt(variance) and the variance of a cell whose proportion is 1 (or 0)
can come out as a tiny negative number (float round-off in Nt - Np - Nn). The public measure then
reports NaN for that cell while the sort key is an ordinary (negative) number, so the element is
not put in the NaN bucket: with an ascending sort the NaN element comes FIRST in its group.
"""
import sys; src = "/repo/src"; sys.path.insert(0, src); import cr; cr.__path__ = [src + "/cr"]
import math
import warnings
import numpy as np
from cr.cube.cube import Cube

warnings.filterwarnings("ignore")


def cat_dim(alias, ids, insertions):
    cats = [{"id": i, "missing": False, "name": "%s%d" % (alias.lower(), i), "numeric_value": None} for i in ids]
    return {
        "derived": False,
        "references": {"alias": alias, "name": alias, "view": {"transform": {"insertions": insertions}}},
        "type": {"categories": cats, "class": "categorical", "ordinal": False},
    }


row_ins = [
    {"function": "subtotal", "name": "r1+r2", "anchor": "bottom", "args": [1, 2], "id": 1},
    {"function": "subtotal", "name": "r2+r3", "anchor": "bottom", "args": [2, 3], "id": 2},
    {"function": "subtotal", "name": "r1+r3", "anchor": "bottom", "args": [1, 3], "id": 3},
]
col_ins = [{"function": "subtotal", "name": "all", "anchor": "bottom", "args": [1, 2, 3], "id": 1}]
unweighted = [2] * 9
weighted = [0.7, 0.2, 0.1,
            0.7, 0.1, 0.7,
            0.7, 1.1, 0.1]
resp = {
    "query": {"dimensions": [], "measures": {"count": {"args": [], "function": "cube_count"}}, "weight": "w"},
    "result": {
        "counts": unweighted,
        "dimensions": [cat_dim("R", [1, 2, 3], row_ins), cat_dim("C", [1, 2, 3], col_ins)],
        "element": "crunch:cube",
        "measures": {"count": {"data": weighted, "metadata": {"derived": True, "references": {},
            "type": {"class": "numeric", "integer": False, "missing_reasons": {"No Data": -1}, "missing_rules": {}}},
            "n_missing": 0}},
        "missing": 0, "n": 18,
        "filtered": {"unweighted_n": 18, "weighted_n": sum(weighted)},
        "unfiltered": {"unweighted_n": 18, "weighted_n": sum(weighted)},
    },
}

order = {"type": "opposing_insertion", "insertion_id": 1, "measure": "row_std_dev", "direction": "ascending"}
slice_ = Cube(resp, transforms={"rows_dimension": {"order": order}}).partitions[0]

labels = [str(l) for l in slice_.row_labels]
col = [str(l) for l in slice_.column_labels].index("all")
public = [float(v) for v in slice_.row_std_dev[:, col]]
signed = [int(i) for i in slice_.row_order()]
print("row order      :", signed, labels)
print("row_std_dev[all]:", public)

# First principles: the "all" column holds every valid column, so each row proportion is exactly 1 and
# the std-dev sqrt(p * (1 - p)) is exactly 0 for every row and row-subtotal. Any order is acceptable as
# long as it is consistent with what the public measure reports: ascending, NaN last within each group.
failures = []
for v, l in zip(public, labels):
    if math.isnan(v):
        print("note: public row_std_dev of %r is NaN, 0.0 expected (sqrt of a -1e-16 variance)" % l)

for name, grp in (("body", [v for v, i in zip(public, signed) if i >= 0]),
                  ("subtotal", [v for v, i in zip(public, signed) if i < 0])):
    seen_nan = False
    prev = None
    for v in grp:
        if math.isnan(v):
            seen_nan = True
            continue
        if seen_nan:
            failures.append("%s group %s: a NaN-valued element precedes a numeric one (NaN must be last)" % (name, grp))
            break
        if prev is not None and v < prev:
            failures.append("%s group %s: not ascending" % (name, grp))
            break
        prev = v

if failures:
    print("\nDEFECT:")
    for f in failures:
        print("  -", f)
    sys.exit(1)
print("ok")
sys.exit(0)
