"""C20: smoothed columns-scale-mean runs the moving average ACROSS the inserted subtotal columns.

A CAT x CAT_DATE cube (3 scale rows x 4 monthly waves) with two column subtotals ("H1" = waves 1+2,
"H2" = waves 3+4) and a smoothing window of 2.

Expected (first principles):
  * base (period) columns: scale mean of the trailing-2 moving average of the column proportions,
    NaN for the first period;
  * a subtotal column is not a period of the series, `smoothed_column_proportions` reports it
    unsmoothed, so "the scale mean of the smoothed proportions" is the plain scale mean of that column.
The library instead treats the (insertion-ordered) block of subtotal columns as a time series of its own:
H1 becomes NaN and H2 becomes the scale mean of the average of the H1 and H2 proportions. With window 3
(> number of subtotal columns) the very same subtotal columns come out unsmoothed.
"""
import sys; src = "/repo/src"; sys.path.insert(0, src); import cr; cr.__path__ = [src + "/cr"]
import warnings
import numpy as np
from cr.cube.cube import Cube

warnings.simplefilter("ignore")

# rows: 3 valid categories with numeric values 1, 2, 3 (+ a missing one)
# cols: 4 valid categorical-date waves (+ a missing one)
counts = np.array(
    [
        [10, 20, 30, 40, 0],
        [30, 30, 10, 50, 0],
        [60, 10, 20, 10, 0],
        [0, 0, 0, 0, 0],
    ],
    dtype=float,
)
numeric_values = np.array([1.0, 2.0, 3.0])
rows = [
    {"id": 1, "missing": False, "name": "Low", "numeric_value": 1},
    {"id": 2, "missing": False, "name": "Mid", "numeric_value": 2},
    {"id": 3, "missing": False, "name": "High", "numeric_value": 3},
    {"id": -1, "missing": True, "name": "No Data", "numeric_value": None},
]
cols = [
    {"id": 1, "missing": False, "name": "Jan", "date": "2020-01"},
    {"id": 2, "missing": False, "name": "Feb", "date": "2020-02"},
    {"id": 3, "missing": False, "name": "Mar", "date": "2020-03"},
    {"id": 4, "missing": False, "name": "Apr", "date": "2020-04"},
    {"id": -1, "missing": True, "name": "No Data"},
]
cube = {
    "result": {
        "counts": counts.flatten().tolist(),
        "dimensions": [
            {
                "derived": False,
                "references": {"alias": "scale", "name": "scale"},
                "type": {"categories": rows, "class": "categorical", "ordinal": False},
            },
            {
                "derived": False,
                "references": {"alias": "wave", "name": "wave"},
                "type": {"categories": cols, "class": "categorical", "ordinal": False},
            },
        ],
        "element": "crunch:cube",
        "measures": {
            "count": {
                "data": counts.flatten().tolist(),
                "metadata": {
                    "derived": True,
                    "references": {},
                    "type": {
                        "class": "numeric",
                        "integer": True,
                        "missing_reasons": {"No Data": -1},
                        "missing_rules": {},
                    },
                },
                "n_missing": 0,
            }
        },
        "missing": 0,
        "n": int(counts.sum()),
    }
}
WINDOW = 2
transforms = {
    "columns_dimension": {
        "insertions": [
            {"function": "subtotal", "args": [1, 2], "anchor": "top", "name": "H1"},
            {"function": "subtotal", "args": [3, 4], "anchor": "bottom", "name": "H2"},
        ],
        "smoother": {"function": "one_sided_moving_avg", "window": WINDOW},
    }
}
slice_ = Cube(cube, transforms=transforms).partitions[0]
labels = [str(l) for l in slice_.column_labels]  # H1, Jan, Feb, Mar, Apr, H2

# ---------- expected, from the raw counts ----------
valid = counts[:3, :4]
props = valid / valid.sum(axis=0)  # column proportions of the 4 periods


def trailing_mean(x, w):
    out = np.full(x.shape, np.nan)
    for t in range(w - 1, x.shape[1]):
        out[:, t] = x[:, t - w + 1 : t + 1].mean(axis=1)
    return out


def scale_mean(p):
    with np.errstate(invalid="ignore"):
        return (p * numeric_values[:, None]).sum(axis=0) / p.sum(axis=0)


smoothed_period_props = trailing_mean(props, WINDOW)
h1 = valid[:, [0, 1]].sum(axis=1)
h2 = valid[:, [2, 3]].sum(axis=1)
subtotal_props = np.stack([h1 / h1.sum(), h2 / h2.sum()], axis=1)  # not periods -> not smoothed
expected = dict(zip(["Jan", "Feb", "Mar", "Apr"], scale_mean(smoothed_period_props)))
expected.update(zip(["H1", "H2"], scale_mean(subtotal_props)))
expected = np.array([expected[l] for l in labels])

actual = slice_.smoothed_columns_scale_mean
# the library's own smoothed proportions, for the consistency form of the property
lib_props = slice_.smoothed_column_proportions
from_lib_props = scale_mean(lib_props)

print("columns                         :", labels)
print("expected smoothed scale mean    :", np.round(expected, 5))
print("scale mean of lib smoothed props:", np.round(from_lib_props, 5))
print("library smoothed_columns_scale_mean:", np.round(actual, 5))

ok = actual.shape == expected.shape and np.allclose(actual, expected, equal_nan=True)
ok2 = np.allclose(actual, from_lib_props, equal_nan=True)
if not (ok and ok2):
    bad = [l for l, a, e in zip(labels, actual, expected) if not np.isclose(a, e, equal_nan=True)]
    print("VIOLATION: smoothed scale mean differs from scale mean of smoothed proportions in columns", bad)
    sys.exit(1)
print("OK")
sys.exit(0)
