"""A strand (1-D partition) sorted by its own `stddev` / valid-count measure stays in payload order.

`tests/fixtures/cat-mean.json` is a numeric summary by category carrying mean, sum, stddev and
valid_count_unweighted. Sorting the strand by "mean" or "sum" works; sorting it by "stddev" or by
"valid_count_unweighted" (measures that ARE in the response, that the strand reports through its
public `.stddev` / `.unweighted_counts`, and that a 2-D slice can be sorted by) silently falls back
to payload order.
"""
import sys; src = "/repo/src"; sys.path.insert(0, src); import cr; cr.__path__ = [src + "/cr"]

import json
import math

from cr.cube.cube import Cube

with open("/repo/tests/fixtures/cat-mean.json") as f:
    RESPONSE = json.load(f)

result = RESPONSE.get("value", RESPONSE)["result"]
categories = result["dimensions"][0]["type"]["categories"]
valid_positions = [i for i, c in enumerate(categories) if not c.get("missing")]


def payload_values(measure):
    """value the response carries for each valid category, NaN for {"?": ...} markers"""
    data = result["measures"][measure]["data"]
    return [float("nan") if isinstance(data[i], dict) else float(data[i]) for i in valid_positions]


def expected_order(values, descending=True):
    """monotone in `values`, NaN-valued elements last in payload order"""
    keyed = [(v, i) for i, v in enumerate(values) if not math.isnan(v)]
    nans = [i for i, v in enumerate(values) if math.isnan(v)]
    return [i for _, i in sorted(keyed, reverse=descending)] + nans


def strand(measure, direction="descending"):
    transforms = {
        "rows_dimension": {
            "order": {"type": "univariate_measure", "measure": measure, "direction": direction}
        }
    }
    return Cube(RESPONSE, transforms=transforms).partitions[0]


bad = False
for keyname, payload_measure, public_prop in (
    ("mean", "mean", "means"),  # control: works
    ("sum", "sum", "sums"),  # control: works
    ("stddev", "stddev", "stddev"),
    ("valid_count_unweighted", "valid_count_unweighted", "unweighted_counts"),
):
    for direction in ("descending", "ascending"):
        values = payload_values(payload_measure)
        want = expected_order(values, descending=(direction == "descending"))
        s = strand(keyname, direction)
        got = [int(i) for i in s.row_order()]
        reported = [float(x) for x in getattr(s, public_prop)]
        # --- the property: the public measure, read in display order, is monotone in the
        # --- requested direction with the NaN-valued rows last (ties may come in any order)
        finite = [v for v in reported if not math.isnan(v)]
        nan_last = all(math.isnan(v) for v in reported[len(finite):])
        monotone = all(
            (a >= b) if direction == "descending" else (a <= b)
            for a, b in zip(finite, finite[1:])
        )
        same_rows = sorted(got) == list(range(len(values)))
        good = nan_last and monotone and same_rows
        status = "ok  " if good else "DIFF"
        print(
            "%s sort by %-22s %-10s payload values %s -> row_order %s (e.g. %s expected); public .%s = %s"
            % (status, keyname, direction, [round(v, 2) for v in values], got, want, public_prop,
               [round(v, 2) for v in reported])
        )
        if not good:
            bad = True

sys.exit(1 if bad else 0)
