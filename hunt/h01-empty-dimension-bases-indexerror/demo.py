"""A slice one of whose dimensions has no valid element (all categories missing) cannot report
its bases / proportions, and cannot even report its counts once the other dimension is sorted by
base.  Shape of tests/fixtures/cat-x-cat-all-missing-row-elements.json (which the test-suite only
checks for `.row_proportions`).

The table has 0 rows x 2 columns.  Summing over zero rows, every column's base is 0, and every
2-D measure is an empty (0, 2) array.
"""
import sys; src = "/repo/src"; sys.path.insert(0, src); import cr; cr.__path__ = [src + "/cr"]

import itertools
import warnings
import numpy as np
from cr.cube.cube import Cube

warnings.simplefilter("ignore")

# ---- respondent-level data: nobody gave a valid answer to the row question ----
ROW_CATS = [(1, "Skipped", True), (2, "Not asked", True), (-1, "No Data", True)]
COL_CATS = [(1, "Yes", False), (2, "Refused", True), (3, "No", False), (-1, "No Data", True)]
rows = [0, 0, 1, 2, 2, 1, 0]
cols = [0, 2, 2, 0, 1, 3, 2]


def cat_dim(alias, cats):
    return {"references": {"alias": alias, "name": alias.upper()},
            "type": {"class": "categorical", "ordinal": False,
                     "categories": [{"id": i, "name": n, "missing": m, "numeric_value": None} for i, n, m in cats]}}


counts = [sum(1 for r, c in zip(rows, cols) if (r, c) == cell)
          for cell in itertools.product(range(len(ROW_CATS)), range(len(COL_CATS)))]
response = {"result": {"dimensions": [cat_dim("r", ROW_CATS), cat_dim("c", COL_CATS)], "counts": counts,
                       "measures": {"count": {"data": counts, "n_missing": 0, "metadata": {}}},
                       "n": len(rows), "missing": 0}}

SORT_BY_BASE = {"order": {"type": "marginal", "marginal": "unweighted_base", "direction": "descending"}}


def transposed(resp):
    """Same data with the two variables swapped (all-missing variable on the columns)."""
    r = resp["result"]
    nr, nc = len(ROW_CATS), len(COL_CATS)
    data = np.array(r["counts"]).reshape(nr, nc).T.flatten().tolist()
    return {"result": dict(r, dimensions=r["dimensions"][::-1], counts=data,
                           measures={"count": {"data": data, "n_missing": 0, "metadata": {}}})}


n_valid = sum(1 for c in COL_CATS if not c[2])           # 2 valid categories on the other variable
rows_empty, cols_empty = np.empty((0, n_valid)), np.empty((n_valid, 0))
expectations = [
    # (response, transforms, attribute, expected value)
    # --- all-missing ROWS variable (the fixture's shape): 0 x 2 table ---
    (response, {}, "counts", rows_empty),
    (response, {}, "row_proportions", rows_empty),
    (response, {}, "columns_base", np.zeros(n_valid)),
    (response, {}, "column_unweighted_bases", rows_empty),
    (response, {}, "table_unweighted_bases", rows_empty),
    (response, {}, "table_proportions", rows_empty),
    # --- all-missing COLUMNS variable: 2 x 0 table ---
    (transposed(response), {}, "counts", cols_empty),
    (transposed(response), {}, "rows_base", np.zeros(n_valid)),
    (transposed(response), {}, "row_unweighted_bases", cols_empty),
    (transposed(response), {}, "table_proportions", cols_empty),
    # --- ... whose rows are sorted by base: even the counts are unreadable ---
    (transposed(response), {"rows_dimension": SORT_BY_BASE}, "counts", cols_empty),
    (transposed(response), {"rows_dimension": SORT_BY_BASE}, "unweighted_counts", cols_empty),
]

failed = False
for resp, transforms, attr, exp in expectations:
    part = Cube(resp, transforms=transforms).partitions[0]
    label = f"{'x'.join(str(n) for n in exp.shape) if exp.ndim == 2 else 'margin'} {attr}{' [rows sorted by base]' if transforms else ''}"
    try:
        got = np.asarray(getattr(part, attr), dtype=float)
        good = got.shape == exp.shape and np.allclose(got, exp)
        print(f"{label:50s} shape {got.shape} {'ok' if good else 'WRONG, expected shape %s' % (exp.shape,)}")
    except Exception as e:  # noqa
        good = False
        print(f"{label:50s} raised {type(e).__name__}: {e}")
    failed |= not good

if failed:
    print("VIOLATION: internal IndexError on a table with an all-missing dimension")
sys.exit(1 if failed else 0)
