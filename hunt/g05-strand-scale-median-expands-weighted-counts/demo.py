"""_Strand.scale_median materialises one array element per (weighted) respondent.

A 1-D categorical strand whose categories carry numeric values 1, 2, 3.  Seven respondents
(unweighted counts 2 / 1 / 4), every one of them with the (integer) weight 1e9, as happens
with weights that project the sample onto a population.  The weighted counts are therefore
the integers 2e9, 1e9, 4e9 and the scale median - the median of the numeric values of the
(weighted) respondents - is 3, exactly as for the unweighted data (a constant weight cannot
change a median).

The library answers the unweighted cube (3.0), but on the weighted one it calls
np.repeat(values, counts) and tries to build a 7e9-element array (52 GiB): MemoryError
(or, on a machine with enough RAM + swap, minutes of thrashing).  scale_mean / scale_std_dev /
scale_std_err of the very same strand are fine.

To keep the demo harmless the address space is capped at 4 GiB, so the allocation fails at
once instead of trying to eat the machine's memory.
"""
import resource
import sys

resource.setrlimit(resource.RLIMIT_AS, (4 * 2**30, 4 * 2**30))

src = "/repo/src"
sys.path.insert(0, src)
import cr  # noqa: E402

cr.__path__ = [src + "/cr"]

import numpy as np  # noqa: E402
from cr.cube.cube import Cube  # noqa: E402

VALUES = [1, 2, 3]
UNWEIGHTED = [2, 1, 4]
WEIGHT = 1e9


def response(weight):
    return {
        "result": {
            "n": sum(UNWEIGHTED),
            "counts": UNWEIGHTED + [0],
            "dimensions": [
                {
                    "type": {
                        "class": "categorical",
                        "ordinal": False,
                        "categories": [
                            {"id": i + 1, "name": "c%d" % (i + 1), "missing": False, "numeric_value": v}
                            for i, v in enumerate(VALUES)
                        ]
                        + [{"id": -1, "name": "No Data", "missing": True, "numeric_value": None}],
                    },
                    "references": {"alias": "q", "name": "q"},
                    "derived": False,
                }
            ],
            "measures": {
                "count": {
                    "metadata": {
                        "derived": True,
                        "references": {},
                        "type": {"class": "numeric", "integer": False, "missing_reasons": {"No Data": -1}, "missing_rules": {}},
                    },
                    "data": [c * weight for c in UNWEIGHTED] + [0],
                    "n_missing": 0,
                }
            },
            "missing": 0,
            "element": "crunch:cube",
        }
    }


# --- first principles: median of the numeric values of the respondents (weights are a
# --- constant, so every respondent counts the same)
expanded = [v for v, c in zip(VALUES, UNWEIGHTED) for _ in range(c)]
expected = float(np.median(expanded))  # 3.0

bad = False
unweighted = Cube(response(1)).partitions[0]
print("unweighted strand: scale_median =", unweighted.scale_median, "(expected %s)" % expected)
if unweighted.scale_median != expected:
    bad = True

weighted = Cube(response(WEIGHT)).partitions[0]
print("weighted strand  : counts       =", weighted.counts.tolist())
print("weighted strand  : scale_mean   =", weighted.scale_mean, " scale_std_dev =", weighted.scale_std_dev)
try:
    got = weighted.scale_median
    print("weighted strand  : scale_median =", got, "(expected %s)" % expected)
    if got != expected:
        bad = True
except MemoryError as e:
    print("weighted strand  : scale_median raised MemoryError:", e)
    bad = True

sys.exit(1 if bad else 0)
