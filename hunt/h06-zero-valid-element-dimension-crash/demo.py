"""C10: a slice one of whose dimensions has no valid element (every category missing - like the shipped
fixture cat-x-cat-all-missing-row-elements.json) raises IndexError for most measures.

Such a slice is a legitimate empty table: `counts`, `row_labels`, `row_proportions` are already served as
empty (0 x n) arrays (tests/integration/test_cubepart.py::test_it_accommodates_an_all_missing_element_rows_
dimension).  By the transposition property every row-direction measure of (0 x n) must equal the column-
direction measure of its transpose (n x 0) and vice versa, and direction-free measures are (empty)
transposes of each other.  Instead the column-direction measures / all table-level measures of the (0 x n)
slice, and the row-direction ones of the (n x 0) slice, die with
`IndexError: index 0 is out of bounds for axis 0 with size 0`.
"""
import sys; src = "/repo/src"; sys.path.insert(0, src); import cr; cr.__path__ = [src + "/cr"]

import numpy as np

from cr.cube.cube import Cube

# --- A: both categories are missing; B: two valid categories + No Data ---
A = [{"id": 8, "name": "skipped", "missing": True, "numeric_value": None},
     {"id": -1, "name": "No Data", "missing": True, "numeric_value": None}]
B = [{"id": 1, "name": "yes", "missing": False, "numeric_value": 1},
     {"id": 2, "name": "no", "missing": False, "numeric_value": 2},
     {"id": -1, "name": "No Data", "missing": True, "numeric_value": None}]
COUNTS = np.array([[3, 4, 1], [5, 6, 2]])  # A x B (all of it in missing rows)


def dim(alias, cats):
    return {"references": {"alias": alias, "name": alias.upper()},
            "type": {"class": "categorical", "ordinal": False, "categories": cats}}


def response(transposed):
    c = COUNTS.T if transposed else COUNTS
    dims = [dim("b", B), dim("a", A)] if transposed else [dim("a", A), dim("b", B)]
    flat = [int(x) for x in c.reshape(-1)]
    return {"query": {}, "result": {"counts": flat, "dimensions": dims, "element": "crunch:cube",
                                    "measures": {"count": {"data": flat, "n_missing": 21, "metadata": {
                                        "type": {"class": "numeric", "integer": True}}}},
                                    "n": 21, "missing": 21}}


ab = Cube(response(False), population=1000).partitions[0]  # 0 x 2
ba = Cube(response(True), population=1000).partitions[0]  # 2 x 0
assert ab.counts.shape == (0, 2) and ba.counts.shape == (2, 0)
assert ab.row_proportions.shape == (0, 2)  # this one is "accommodated"

MATRIX_PAIRS = [  # (row-direction, column-direction) cell-level measures
    ("row_proportions", "column_proportions"), ("row_std_err", "column_std_err"),
    ("row_proportions_moe", "column_proportions_moe"), ("row_std_dev", "column_std_dev"),
    ("row_unweighted_bases", "column_unweighted_bases"), ("row_weighted_bases", "column_weighted_bases"),
]
FREE = ["counts", "table_proportions", "table_std_err", "table_proportions_moe", "table_unweighted_bases",
        "table_weighted_bases", "zscores", "pvals", "population_counts", "population_counts_moe"]

failed = False


def value(slice_, name):
    try:
        return np.asarray(getattr(slice_, name), dtype=float)
    except Exception as e:  # noqa
        return "%s: %s" % (type(e).__name__, e)


def check(what, got, shape):
    global failed
    ok = not isinstance(got, str) and got.shape == shape
    if not ok:
        failed = True
        print("FAIL  %-38s expected empty array of shape %s, got %s" % (what, shape, got if isinstance(got, str) else got.shape))
    else:
        print("ok    %s" % what)


for r, c in MATRIX_PAIRS:
    check("(0x2).%s" % r, value(ab, r), (0, 2))
    check("(2x0).%s" % c, value(ba, c), (2, 0))
    check("(0x2).%s" % c, value(ab, c), (0, 2))
    check("(2x0).%s" % r, value(ba, r), (2, 0))
for f in FREE:
    check("(0x2).%s" % f, value(ab, f), (0, 2))
    check("(2x0).%s" % f, value(ba, f), (2, 0))
# --- margins along the surviving dimension B: two entries, the sum over no rows, i.e. zeros ---
for name, s in (("columns_base", ab), ("columns_margin", ab), ("rows_base", ba), ("rows_margin", ba)):
    got = value(s, name)
    ok = not isinstance(got, str) and got.shape == (2,) and np.all(got == 0)
    if not ok:
        failed = True
        print("FAIL  %-38s expected [0, 0], got %s" % (name, got))
    else:
        print("ok    %s" % name)

sys.exit(1 if failed else 0)
