"""Proportion variance comes out slightly NEGATIVE (-1e-16) and std-dev / std-err / MoE come out
NaN for a subtotal whose proportion is exactly 1 on WEIGHTED data.

When every respondent of the base belongs to the subtotal's addends the indicator is constant,
so its variance is 0 and the standard deviation, standard error and margin of error are 0 -
defined, not NaN (proportion = 1 and base > 0 are both defined).

Scenario 1: shipped fixture cat-x-cat-wgtd.json + an "All" subtotal on rows and on columns
            (slice: row / table variance, std_dev, std_err, MoE).
Scenario 1b: shipped fixture cat-x-cat-german-weighted.json (2 x 8) + one "All" column subtotal.
Scenario 2: weighted univariate categorical with nine categories, nobody in the first one,
            and a "NET: any brand" subtotal over the other eight (strand).

The oracle is exact rational arithmetic (fractions.Fraction) on the weighted counts of the
cube response; no library internals are used.
"""
import sys; src = "/repo/src"; sys.path.insert(0, src); import cr; cr.__path__ = [src + "/cr"]
import json, math, warnings
from fractions import Fraction as F
import numpy as np
from cr.cube.cube import Cube

warnings.filterwarnings("ignore")
FIX = "/repo/tests/fixtures/"
Z_975 = 1.959964


def var_se(n_pos, n_base):
    """Exact variance of the 0/1 indicator among the base, and sqrt(var / base)."""
    if n_base == 0:
        return math.nan, math.nan
    p = n_pos / n_base
    var = p * (1 - p)
    return float(var), math.sqrt(float(var / n_base))


def compare(label, got, exp):
    got = np.asarray(got, float)
    bad = ~np.isclose(got, exp, rtol=1e-6, atol=1e-9, equal_nan=True) | (got < 0)
    for idx in np.argwhere(bad):
        idx = tuple(int(i) for i in idx)
        print(f"   {label}{list(idx)}: expected {exp[idx]!r} got {got[idx]!r}")
    return int(bad.sum())


n_bad = 0
# ------------------------------------------------------------------ scenario 1
with open(FIX + "cat-x-cat-wgtd.json") as f:
    resp = json.load(f)
res = resp["result"]
cats = [d["type"]["categories"] for d in res["dimensions"]]
raw = np.array([F(x) for x in res["measures"]["count"]["data"]], dtype=object).reshape(
    tuple(len(c) for c in cats)
)
valid = [[k for k, c in enumerate(cs) if not c.get("missing")] for cs in cats]
ids = [[cs[k]["id"] for k in v] for cs, v in zip(cats, valid)]
counts = raw[np.ix_(valid[0], valid[1])]
nr, nc = counts.shape
transforms = {
    "rows_dimension": {"insertions": [
        {"function": "subtotal", "name": "All", "anchor": "bottom", "args": ids[0], "id": 1}]},
    "columns_dimension": {"insertions": [
        {"function": "subtotal", "name": "All", "anchor": "bottom", "args": ids[1], "id": 1}]},
}
row_specs = [[i] for i in range(nr)] + [list(range(nr))]
col_specs = [[j] for j in range(nc)] + [list(range(nc))]
T = sum(counts.ravel())
exp = {k: np.empty((nr + 1, nc + 1)) for k in ("row_var", "row_se", "tab_var", "tab_se")}
for a, rows in enumerate(row_specs):
    for b, cols in enumerate(col_specs):
        cell = sum(counts[i, j] for i in rows for j in cols)
        row_base = sum(counts[i, j] for i in rows for j in range(nc))
        exp["row_var"][a, b], exp["row_se"][a, b] = var_se(cell, row_base)
        exp["tab_var"][a, b], exp["tab_se"][a, b] = var_se(cell, T)
s = Cube(resp, transforms=transforms).partitions[0]
assert list(s.row_labels)[-1] == "All" and list(s.column_labels)[-1] == "All"
print("scenario 1: cat-x-cat-wgtd.json + 'All' row and 'All' column")
print("   row proportion All x All   :", s.row_proportions[-1, -1])
print("   table proportion All x All :", s.table_proportions[-1, -1])
n_bad += compare("row_proportion_variances", s.row_proportion_variances, exp["row_var"])
n_bad += compare("row_std_dev", s.row_std_dev, np.sqrt(exp["row_var"]))
n_bad += compare("row_std_err", s.row_std_err, exp["row_se"])
n_bad += compare("row_proportions_moe", s.row_proportions_moe, Z_975 * exp["row_se"])
n_bad += compare("table_proportion_variances", s.table_proportion_variances, exp["tab_var"])
n_bad += compare("table_std_dev", s.table_std_dev, np.sqrt(exp["tab_var"]))
n_bad += compare("table_std_err", s.table_std_err, exp["tab_se"])
n_bad += compare("table_proportions_moe", s.table_proportions_moe, Z_975 * exp["tab_se"])

# ------------------------------------------------------------------ scenario 1b
# a single "All" column subtotal on a shipped weighted 2 x 8 fixture is enough
with open(FIX + "cat-x-cat-german-weighted.json") as f:
    resp = json.load(f)
res = resp["result"]
cats = [d["type"]["categories"] for d in res["dimensions"]]
raw = np.array([F(x) for x in res["measures"]["count"]["data"]], dtype=object).reshape(
    tuple(len(c) for c in cats)
)
valid = [[k for k, c in enumerate(cs) if not c.get("missing")] for cs in cats]
counts = raw[np.ix_(valid[0], valid[1])]
nr, nc = counts.shape
col_ids = [cats[1][k]["id"] for k in valid[1]]
transforms = {"columns_dimension": {"insertions": [
    {"function": "subtotal", "name": "All", "anchor": "bottom", "args": col_ids, "id": 1}]}}
col_specs = [[j] for j in range(nc)] + [list(range(nc))]
exp_var = np.empty((nr, nc + 1)); exp_se = np.empty((nr, nc + 1))
for i in range(nr):
    row_base = sum(counts[i, j] for j in range(nc))
    for b, cols in enumerate(col_specs):
        exp_var[i, b], exp_se[i, b] = var_se(sum(counts[i, j] for j in cols), row_base)
s = Cube(resp, transforms=transforms).partitions[0]
assert list(s.column_labels)[-1] == "All"
print("scenario 1b: cat-x-cat-german-weighted.json + one 'All' column subtotal")
print("   row proportions of the All column:", s.row_proportions[:, -1])
n_bad += compare("row_proportion_variances", s.row_proportion_variances, exp_var)
n_bad += compare("row_std_dev", s.row_std_dev, np.sqrt(exp_var))
n_bad += compare("row_std_err", s.row_std_err, exp_se)
n_bad += compare("row_proportions_moe", s.row_proportions_moe, Z_975 * exp_se)

# ------------------------------------------------------------------ scenario 2
names = ["None of these"] + [f"Brand {c}" for c in "ABCDEFGH"]
wcounts = [0.0, 12.3, 50.2, 40.9, 26.5, 43.9, 62.0, 20.1, 30.4, 0.0]  # last = "No Data"
ucounts = [0, 12, 51, 40, 27, 44, 61, 20, 31, 0]
strand_resp = {
    "query": {},
    "result": {
        "element": "crunch:cube", "n": 286, "missing": 0, "counts": ucounts,
        "dimensions": [{
            "derived": False,
            "references": {"alias": "brand", "name": "Preferred brand", "description": ""},
            "type": {"class": "categorical", "ordinal": False, "categories": [
                {"id": k + 1, "missing": False, "name": n, "numeric_value": None}
                for k, n in enumerate(names)
            ] + [{"id": -1, "missing": True, "name": "No Data", "numeric_value": None}]},
        }],
        "measures": {"count": {
            "data": wcounts, "n_missing": 0,
            "metadata": {"derived": True, "references": {},
                         "type": {"class": "numeric", "integer": False,
                                  "missing_reasons": {"No Data": -1}, "missing_rules": {}}}}},
    },
}
strand_transforms = {"rows_dimension": {"insertions": [
    {"function": "subtotal", "name": "NET: any brand", "anchor": "bottom",
     "args": [2, 3, 4, 5, 6, 7, 8, 9], "id": 1}]}}
w = [F(x) for x in wcounts[:9]]
base = sum(w)
specs = [[k] for k in range(9)] + [list(range(1, 9))]
pairs = [var_se(sum(w[k] for k in spec), base) for spec in specs]
exp_sd = np.sqrt(np.array([v for v, _ in pairs]))
exp_se = np.array([se for _, se in pairs])
st = Cube(strand_resp, transforms=strand_transforms).partitions[0]
assert list(st.row_labels)[-1] == "NET: any brand"
print("scenario 2: weighted strand, 'NET: any brand' covers every respondent")
print("   table proportion of the NET:", st.table_proportions[-1])
n_bad += compare("table_proportion_stddevs", st.table_proportion_stddevs, exp_sd)
n_bad += compare("table_proportion_stderrs", st.table_proportion_stderrs, exp_se)
n_bad += compare("table_proportion_moes", st.table_proportion_moes, Z_975 * exp_se)

print("violations:", n_bad)
sys.exit(1 if n_bad else 0)
