"""CubeSet with a single-column-filter cube crashes when the responses are JSON text or
wrapped in a {"value": ...} envelope, although every Cube accepts those forms and the same
responses passed as plain dicts work.

Exit 1 when the library violates C18 (a response supplied as JSON text / dict / envelope
must give the same results), 0 otherwise.
"""
import sys; src = "/repo/src"; sys.path.insert(0, src); import cr; cr.__path__ = [src + "/cr"]

import json

from cr.cube.cube import Cube, CubeSet


def text_dim(values):
    return {
        "references": {"alias": "txt", "name": "Txt"},
        "type": {
            "class": "enum",
            "elements": [
                {"id": i, "missing": False, "value": v} for i, v in enumerate(values)
            ]
            + [{"id": -1, "missing": True, "value": {"?": -1}}],
            "subtype": {
                "class": "text",
                "missing_reasons": {"No Data": -1},
                "missing_rules": {},
            },
        },
    }


def response(values, counts, single_col=False):
    result = {
        "counts": list(counts),
        "measures": {"count": {"data": list(counts), "n_missing": 0}},
        "dimensions": [text_dim(values)],
        "n": sum(counts),
    }
    if single_col:
        result["is_single_col_cube"] = True
    return {"result": result}


def build():
    """Multitable: text variable on the rows, (a) summary, (b) single-column filter
    in which only respondents answering "A" and "C" fall, (c) filter with all rows."""
    return [
        response(["A", "B", "C"], [3, 2, 1, 0]),
        response(["A", "C"], [2, 1, 0], single_col=True),
        response(["A", "B", "C"], [1, 1, 1, 0], single_col=True),
    ]


# --- expected, from first principles: one count per row label A, B, C of the summary
# --- cube, 0 for a label that does not occur in the filtered data.
EXPECTED = [[3.0, 2.0, 1.0], [2.0, 0.0, 1.0], [1.0, 1.0, 1.0]]

FORMS = {
    "dict": lambda r: r,
    "json text": lambda r: json.dumps(r),
    "envelope": lambda r: {"value": r},
    "json text of envelope": lambda r: json.dumps({"value": r}),
}

failed = False
for name, form in FORMS.items():
    responses = [form(r) for r in build()]
    # --- each response on its own is accepted by Cube in this form
    assert Cube(responses[0]).counts.tolist() == EXPECTED[0]
    try:
        cube_set = CubeSet(responses, [{}, {}, {}], 1000, 0)
        got = [p.counts.tolist() for p in cube_set.partition_sets[0]]
    except Exception as e:  # noqa
        got = "%s: %s" % (type(e).__name__, e)
    ok = got == EXPECTED
    failed = failed or not ok
    print("%-22s %s  -> %s" % (name, "ok " if ok else "BAD", got))

print("expected:", EXPECTED)
sys.exit(1 if failed else 0)
