"""A numeric-measure ("mean of X" on the rows) multitable CubeSet rewrites the caller's
response dicts in place (Cube.inflate inserts a rows-dimension into
response["result"]["dimensions"]). A response object that has been through one CubeSet
therefore gives different results the next time it is used:

  * a second CubeSet that shares the (already used) rows response but has a new column
    response no longer recognises itself as the numeric-measure case and delivers the new
    column cube as a 1-D _Strand of shape (3,) instead of the 1 x 3 _Slice,
  * Cube(column_response) changes from 1-D to 2-D.

Exit 1 when the library violates C18 (results depend only on the arguments, also when the
response objects were already used to construct other cubes), 0 otherwise.
"""
import sys; src = "/repo/src"; sys.path.insert(0, src); import cr; cr.__path__ = [src + "/cr"]

import copy

import numpy as np

from cr.cube.cube import Cube, CubeSet

NUMERIC_META = {
    "references": {},
    "derived": True,
    "type": {"class": "numeric", "integer": None, "missing_reasons": {"No Data": -1}, "missing_rules": {}},
}


def rows_response():
    """0-D response: overall mean of a numeric variable (the tab-book "rows" cube)."""
    return {
        "result": {
            "dimensions": [],
            "counts": [1000],
            "measures": {
                "count": {"data": [1000], "n_missing": 0, "metadata": NUMERIC_META},
                "mean": {"data": [49.095], "n_missing": 0, "metadata": NUMERIC_META},
            },
            "missing": 0,
            "n": 1000,
        }
    }


def column_response(alias, counts, means):
    """1-D response: mean of the numeric variable by a 3-category variable."""
    return {
        "result": {
            "dimensions": [
                {
                    "references": {"alias": alias, "name": alias.upper()},
                    "type": {
                        "class": "categorical",
                        "ordinal": False,
                        "categories": [
                            {"id": 1, "name": "a", "missing": False},
                            {"id": 2, "name": "b", "missing": False},
                            {"id": 3, "name": "c", "missing": False},
                            {"id": -1, "name": "No Data", "missing": True},
                        ],
                    },
                }
            ],
            "counts": counts + [0],
            "measures": {
                "count": {"data": counts + [0], "n_missing": 0, "metadata": NUMERIC_META},
                "mean": {"data": means + [{"?": -8}], "n_missing": 0, "metadata": NUMERIC_META},
            },
            "missing": 0,
            "n": sum(counts),
        }
    }


def describe(cube_set):
    """[(partition class name, shape, means as nested list)] of the single partition-set"""
    (partition_set,) = cube_set.partition_sets
    return [
        (type(p).__name__, tuple(p.shape), np.asarray(p.means).tolist())
        for p in partition_set
    ]


ROWS = rows_response()
COL_1 = column_response("gender", [400, 350, 250], [10.0, 20.0, 30.0])
COL_2 = column_response("region", [100, 200, 700], [1.5, 2.5, 3.5])

# --- expected from first principles: the rows cube is the overall mean (1 row), each column
# --- cube is a 1 x 3 table of the mean per category
EXPECTED_PAGE_2 = [("_Strand", (1,), [49.095]), ("_Slice", (1, 3), [[1.5, 2.5, 3.5]])]

failed = False

# --- fresh evaluation on pristine copies ------------------------------------------------
fresh = describe(
    CubeSet([copy.deepcopy(ROWS), copy.deepcopy(COL_2)], [{}, {}], 1000, 0)
)
print("fresh page 2          :", fresh)
if fresh != EXPECTED_PAGE_2:
    print("  BAD: fresh evaluation differs from expected", EXPECTED_PAGE_2)
    failed = True

# --- same evaluation after the rows response was used for another page -------------------
rows, col_1, col_2 = copy.deepcopy(ROWS), copy.deepcopy(COL_1), copy.deepcopy(COL_2)
page_1 = describe(CubeSet([rows, col_1], [{}, {}], 1000, 0))
print("page 1                :", page_1)
page_2 = describe(CubeSet([rows, col_2], [{}, {}], 1000, 0))
print("page 2, `rows` re-used:", page_2)
if page_2 != EXPECTED_PAGE_2:
    print("  BAD: differs from fresh evaluation / expected", EXPECTED_PAGE_2)
    failed = True

# --- a response that went through a CubeSet no longer describes the same cube ------------
ndim_pristine = Cube(copy.deepcopy(COL_1)).ndim
ndim_used = Cube(col_1).ndim
print("Cube(col_1).ndim pristine=%d, after CubeSet use=%d" % (ndim_pristine, ndim_used))
if (ndim_pristine, ndim_used) != (1, 1):
    print("  BAD: a 1-D response must stay 1-D")
    failed = True
print(
    "dimensions in caller's rows response after use: %d (was 0)"
    % len(rows["result"]["dimensions"])
)

sys.exit(1 if failed else 0)
