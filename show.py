#!/usr/bin/env python3
import json,sys
for f in sys.argv[1:]:
    d=json.load(open(f))
    c=d['case']
    print('==',f); print(d['message'])
    print(' shape',c.get('shape'),'tx',json.dumps(c.get('transforms')))
    for k in ('meta','hide','insertions'):
        if k in c: print(' ',k, json.dumps(c[k]))
    sv=c['survey']
    for a,v in sv['vars'].items():
        print('  ',a,v['type'],v.get('flavour'), 'cats',[ (x['id'],x['name'],'M' if x['missing'] else '',x.get('value')) for x in v.get('cats',[])], 'ans',v.get('answers'), 'items',[i['alias'] for i in v.get('items',[])], 'view',v.get('view_insertions'), 'vals', v.get('values'))
    print('  w',sv['weights'], json.dumps(c['query']))
    for k in c:
        if k not in ('survey','query','shape','transforms','meta','hide','insertions'): print(' ',k, json.dumps(c[k])[:300])
