#!/bin/bash
# Offline setup: make sure hypothesis (and atheris for the fuzz tier) are importable by
# /venv/bin/python.  Installs from the local wheelhouse only, into /verif/.deps.
cd "$(dirname "$0")" || exit 2
PY=/venv/bin/python
WH=/opt/veriftools/wheels
mkdir -p .deps evidence replays
export PYTHONPATH="$(pwd)/.deps:${PYTHONPATH}"
if ! $PY -c "import hypothesis" 2>/dev/null; then
  /venv/bin/pip install --no-index --find-links "$WH" --target .deps hypothesis || exit 1
fi
if ! $PY -c "import atheris" 2>/dev/null; then
  /venv/bin/pip install --no-index --find-links "$WH" --target .deps atheris >/dev/null 2>&1 || \
    echo "note: atheris not installable; fuzz tier will be skipped"
fi
$PY -c "import sys; sys.path.insert(0,'/verif'); from engine import env; print('cr.cube at', env.pin())"
