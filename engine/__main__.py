"""`python -m engine <ID> ...` - single import path for engine.runner (no __main__ twin)."""
import sys

from engine.runner import main

sys.exit(main())
