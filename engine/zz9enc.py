"""Deliberately dumb zz9-shaped encoder: Survey x Query -> cube response dict.

Every raw cell is computed by looping over respondents and dropping each respondent's
weight into the cells (of the *full* shape: missing categories and the 3-valued
multiple-response axis included) the respondent belongs to.  Nothing here looks at
cr.cube; the layout is the documented one (C-order over result.dimensions; numeric-array
sub-variables as an extra trailing axis that is not among the dimensions).

Query:
    {"dims": [{"var": alias, "part": None|"items"|"cats"}, ...],   response order
     "weighted": bool,
     "measure": None | {"var": alias, "stats": ["mean","sum","stddev","median"],
                        "valid_counts": bool},
     "squared": bool, "overlaps": bool,
     "extras": {...merged into result (filter_stats, filtered, unfiltered, ...)}}
"""
import math

from . import survey as S

MR_STATES = (1, 0, -1)  # payload order of the selection axis: selected, other, missing


def mr_cat_dim(var):
    return {
        "derived": True,
        "references": _array_refs(var),
        "type": {
            "class": "categorical",
            "ordinal": False,
            "subvariables": [it["sid"] for it in var["items"]],
            "categories": [
                {"id": 1, "missing": False, "name": "Selected", "numeric_value": 1,
                 "selected": True},
                {"id": 0, "missing": False, "name": "Other", "numeric_value": 0},
                {"id": -1, "missing": True, "name": "No Data", "numeric_value": None},
            ],
        },
    }


def _array_refs(var):
    refs = {
        "alias": var["alias"],
        "name": var["name"],
        "description": var.get("description"),
        "subreferences": [
            {"alias": it["alias"], "name": it["name"]} for it in var["items"]
        ],
    }
    if var.get("view_insertions") is not None:
        refs["view"] = {"transform": {"insertions": var["view_insertions"]}}
    return refs


def items_dim(var):
    elements = []
    for it in var["items"]:
        value = {
            "derived": bool(it.get("derived", False)),
            "id": it["sid"],
            "references": {"alias": it["alias"], "name": it["name"]},
        }
        if it.get("anchor") is not None:
            value["references"]["anchor"] = it["anchor"]
        elements.append({"id": it["eid"], "missing": False, "value": value})
    return {
        "derived": True,
        "references": _array_refs(var),
        "type": {"class": "enum", "elements": elements, "subtype": {"class": "variable"}},
    }


def category_dicts(var):
    out = []
    for c in var["cats"]:
        d = {"id": c["id"], "name": c["name"], "missing": bool(c["missing"]),
             "numeric_value": c.get("value")}
        if "date" in c:
            d["date"] = c["date"]
        if c.get("selected"):
            d["selected"] = True
        out.append(d)
    return out


def ca_cats_dim(var):
    return {
        "derived": False,
        "references": _array_refs(var),
        "type": {
            "class": "categorical",
            "ordinal": False,
            "categories": category_dicts(var),
            "subvariables": [it["sid"] for it in var["items"]],
        },
    }


def cat_dim(var):
    refs = {"alias": var["alias"], "name": var["name"]}
    if var.get("description") is not None:
        refs["description"] = var["description"]
    if var.get("view_insertions") is not None:
        refs["view"] = {"transform": {"insertions": var["view_insertions"]}}
    fl = var.get("flavour", "cat")
    if fl in ("datetime", "text", "numeric"):
        elements = []
        for c in var["cats"]:
            e = {"id": c["id"], "value": c["evalue"]}
            if c["missing"]:
                e["missing"] = True
            elif fl != "text":
                e["missing"] = False
            elements.append(e)
        subtype = {"class": fl, "missing_reasons": {"No Data": -1}, "missing_rules": {}}
        if fl == "datetime":
            vals = [c["evalue"] for c in var["cats"] if not c["missing"]]
            subtype["resolution"] = S.datetime_resolution(vals[0]) if vals else "M"
        return {"derived": True, "references": refs,
                "type": {"class": "enum", "elements": elements, "subtype": subtype}}
    typedef = {"class": "categorical", "ordinal": False, "categories": category_dicts(var)}
    if var.get("use_order_key"):
        typedef["order"] = list(var["order"])
    return {"derived": False, "references": refs, "type": typedef}


def data_positions(var):
    """cat id -> position along the data axis (honours the typedef `order` key)."""
    ids = [c["id"] for c in var["cats"]]
    if var.get("use_order_key"):
        ids = list(var["order"])
    return {cid: pos for pos, cid in enumerate(ids)}


class Axis:
    __slots__ = ("var", "role", "size", "dim")

    def __init__(self, var, role, size, dim):
        self.var, self.role, self.size, self.dim = var, role, size, dim


def build_axes(survey, query):
    axes = []
    for d in query["dims"]:
        var = survey["vars"][d["var"]]
        t = var["type"]
        if t == "cat":
            axes.append(Axis(var, "cat", len(var["cats"]), cat_dim(var)))
        elif t == "mr":
            axes.append(Axis(var, "mr_items", len(var["items"]), items_dim(var)))
            axes.append(Axis(var, "mr_sel", 3, mr_cat_dim(var)))
        elif t == "ca":
            if d.get("part") == "items":
                axes.append(Axis(var, "ca_items", len(var["items"]), items_dim(var)))
            else:
                axes.append(Axis(var, "ca_cats", len(var["cats"]), ca_cats_dim(var)))
        else:
            raise ValueError("variable type %r cannot be a dimension" % t)
    return axes


def respondent_cells(survey, axes, r):
    """All index tuples (over `axes`) respondent r falls into."""
    # --- group axes by variable: each variable yields a list of partial assignments
    groups = {}
    order = []
    for ai, ax in enumerate(axes):
        key = ax.var["alias"]
        if key not in groups:
            groups[key] = []
            order.append(key)
        groups[key].append(ai)
    partials = [dict()]
    for key in order:
        ais = groups[key]
        var = axes[ais[0]].var
        roles = {axes[ai].role: ai for ai in ais}
        options = []
        if var["type"] == "cat":
            pos = data_positions(var)[var["answers"][r]]
            options.append({roles["cat"]: pos})
        elif var["type"] == "mr":
            for i in range(len(var["items"])):
                state = var["answers"][r][i]
                options.append({roles["mr_items"]: i, roles["mr_sel"]: MR_STATES.index(state)})
        elif var["type"] == "ca":
            pos = data_positions(var)
            if "ca_items" in roles and "ca_cats" in roles:
                for i in range(len(var["items"])):
                    options.append({roles["ca_items"]: i,
                                    roles["ca_cats"]: pos[var["answers"][r][i]]})
            elif "ca_items" in roles:
                for i in range(len(var["items"])):
                    options.append({roles["ca_items"]: i})
            else:
                raise ValueError("CA categories dimension without its items dimension")
        new = []
        for p in partials:
            for o in options:
                q = dict(p)
                q.update(o)
                new.append(q)
        partials = new
    return [tuple(p[ai] for ai in range(len(axes))) for p in partials]


def numeric_stat(kind, pairs):
    """Statistic of [(w, x), ...] (x valid). None when unavailable."""
    pairs = [(w, x) for (w, x) in pairs]
    sw = sum(w for w, _ in pairs)
    if kind == "sum":
        # zz9 reports a sum of 0 over an empty cell as missing too; keep it simple: missing
        return sum(w * x for w, x in pairs) if pairs else None
    if not pairs or sw <= 0:
        return None
    mean = sum(w * x for w, x in pairs) / sw
    if kind == "mean":
        return mean
    if kind == "stddev":
        if len(pairs) < 2:
            return None
        var = sum(w * (x - mean) ** 2 for w, x in pairs) / sw
        return math.sqrt(var)
    if kind == "median":
        xs = sorted(x for w, x in pairs if w > 0)
        if not xs:
            return None
        m = len(xs)
        return xs[m // 2] if m % 2 else (xs[m // 2 - 1] + xs[m // 2]) / 2.0
    raise ValueError(kind)


def _flat_index(idx, shape):
    k = 0
    for i, s in zip(idx, shape):
        k = k * s + i
    return k


def _num(v):
    return {"?": -8} if v is None else v


def encode(survey, query):
    """Return the cube response dict (not wrapped)."""
    axes = build_axes(survey, query)
    shape = tuple(ax.size for ax in axes)
    ncell = 1
    for s in shape:
        ncell *= s
    n = survey["n"]
    W = survey["weights"] if query.get("weighted") else None
    measure = query.get("measure")
    mvar = survey["vars"][measure["var"]] if measure else None
    is_arr = bool(mvar) and mvar["type"] == "numarr"
    nsub = len(mvar["items"]) if is_arr else 1

    counts = [0] * ncell
    wcounts = [0] * ncell
    sqcounts = [0] * ncell
    cell_members = [[] for _ in range(ncell)]
    for r in range(n):
        w = 1 if W is None else W[r]
        for idx in respondent_cells(survey, axes, r):
            k = _flat_index(idx, shape)
            counts[k] += 1
            wcounts[k] += w
            sqcounts[k] += w * w
            cell_members[k].append(r)

    result = {
        "counts": counts,
        "dimensions": [ax.dim for ax in axes],
        "element": "crunch:cube",
        "measures": {},
        "n": n,
        "missing": 0,
    }
    meta_count = {"derived": True, "references": {},
                  "type": {"class": "numeric", "integer": W is None,
                           "missing_reasons": {"No Data": -1}, "missing_rules": {}}}
    if not measure or measure.get("with_count", True):
        result["measures"]["count"] = {
            "data": list(wcounts) if W is not None else list(counts),
            "metadata": meta_count, "n_missing": 0,
        }
    if query.get("squared") and W is not None:
        result["measures"]["weighted_squared_count"] = {
            "data": list(sqcounts), "metadata": meta_count, "n_missing": 0}

    if measure:
        def xval(r, s):
            return mvar["values"][r][s] if is_arr else mvar["values"][r]

        refs = {"alias": mvar["alias"], "name": mvar["name"]}
        mtype = {"class": "numeric", "integer": False,
                 "missing_reasons": {"No Data": -1, "NaN": -8}, "missing_rules": {}}
        if is_arr:
            refs["subreferences"] = [{"alias": it["alias"], "name": it["name"]}
                                     for it in mvar["items"]]
            mtype["subvariables"] = [it["sid"] for it in mvar["items"]]
        meta = {"derived": True, "references": refs, "type": mtype}
        vcu, vcw = [], []
        stats = {k: [] for k in measure["stats"]}
        for k in range(ncell):
            for s in range(nsub):
                pairs = [((1 if W is None else W[r]), xval(r, s))
                         for r in cell_members[k] if xval(r, s) is not None]
                vcu.append(len(pairs))
                vcw.append(sum(w for w, _ in pairs))
                for kind in stats:
                    stats[kind].append(_num(numeric_stat(kind, pairs)))
        for kind, data in stats.items():
            result["measures"][kind] = {"data": data, "metadata": meta, "n_missing": 0}
        if measure.get("valid_counts", True) or is_arr:
            result["measures"]["valid_count_unweighted"] = {
                "data": vcu, "metadata": meta, "n_missing": 0}
            if W is not None:
                result["measures"]["valid_count_weighted"] = {
                    "data": vcw, "metadata": meta, "n_missing": 0}

    if query.get("overlaps"):
        _add_overlaps(result, survey, axes, shape, cell_members, W)

    for k, v in (query.get("extras") or {}).items():
        result[k] = v
    return {"result": result}


def _add_overlaps(result, survey, axes, shape, cell_members, W):
    """zz9 `overlap` / `valid_overlap`: one more axis j over the items of the *last* MR.

    overlap[..., i, s, j]       = weight of respondents in cell (..., i, s) who also
                                  *selected* item j
    valid_overlap[..., i, s, j] = weight of respondents in cell (..., i, s) who are
                                  non-missing on item j
    """
    last_items = max(ai for ai, ax in enumerate(axes) if ax.role == "mr_items")
    var = axes[last_items].var
    k_items = len(var["items"])
    ov, vov = [], []
    ncell = len(cell_members)
    for k in range(ncell):
        for j in range(k_items):
            a = b = 0
            for r in cell_members[k]:
                w = 1 if W is None else W[r]
                st_j = var["answers"][r][j]
                if st_j == 1:
                    a += w
                if st_j != -1:
                    b += w
            ov.append(a)
            vov.append(b)
    meta = {"derived": True, "references": {},
            "type": {"class": "numeric", "subvariables": [it["sid"] for it in var["items"]]}}
    result["measures"]["overlap"] = {"data": ov, "metadata": meta, "n_missing": 0}
    result["measures"]["valid_overlap"] = {"data": vov, "metadata": meta, "n_missing": 0}
