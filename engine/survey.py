"""Respondent-level survey model (plain JSON-able dicts) and Hypothesis strategies.

A *survey* is what a Crunch cube response tabulates:

    {"n": N, "weights": [w_r, ...] | None, "vars": {alias: VAR, ...}}

VAR is one of

    {"type": "cat", "flavour": "cat"|"cat_date"|"logical"|"datetime"|"text"|"numeric",
     "alias", "name", "cats": [{"id", "name", "missing", "value", "date"?}, ...],
     "answers": [cat id per respondent], "use_order_key": bool,
     "view_insertions": [...] | None}
    {"type": "mr", "alias", "name", "items": [{"eid", "sid", "alias", "name", ...}],
     "answers": [[1|0|-1 per item] per respondent]}        1 selected, 0 other, -1 missing
    {"type": "ca", "alias", "name", "items": [...], "cats": [...],
     "answers": [[cat id per item] per respondent]}
    {"type": "numarr", "alias", "name", "items": [...], "values": [[x|None per item] ...]}
    {"type": "num", "alias", "name", "values": [x|None ...]}

Everything random comes from Hypothesis (`draw`), so cases shrink and replay.
"""
from hypothesis import strategies as st

LETTERS = "abcdefghijklmnopqrstuvwxyz"

# --------------------------------------------------------------------------- accessors


def valid_cats(var):
    return [c for c in var["cats"] if not c["missing"]]


def valid_cat_ids(var):
    return [c["id"] for c in var["cats"] if not c["missing"]]


def weight(survey, r):
    w = survey["weights"]
    return 1 if w is None else w[r]


# --------------------------------------------------------------------------- strategies

DYADIC = [0, 0.25, 0.5, 0.75, 1, 1.25, 1.5, 2, 2.5, 3, 0.125, 0.375]


@st.composite
def weights_st(draw, n, kinds=("none", "int", "dyadic", "zeroheavy")):
    kind = draw(st.sampled_from(kinds))
    if kind == "none" or n == 0:
        return None
    if kind == "int":
        return draw(st.lists(st.integers(0, 4), min_size=n, max_size=n))
    if kind == "dyadic":
        return draw(st.lists(st.sampled_from(DYADIC), min_size=n, max_size=n))
    if kind == "tenths":
        # not exactly representable: sums depend (in the last bit) on the order of addition
        return draw(st.lists(st.sampled_from([0.1, 0.2, 0.3, 0.7, 1.1, 1.3, 2.9]),
                             min_size=n, max_size=n))
    return draw(st.lists(st.sampled_from([0, 0, 0, 1, 0.5, 2]), min_size=n, max_size=n))


@st.composite
def names_st(draw, k, prefix=""):
    """k distinct short names (label sort must not be trivially payload order)."""
    out = []
    used = set()
    for i in range(k):
        s = draw(st.text(alphabet="abcxyz", min_size=1, max_size=2))
        name = prefix + s
        j = 0
        while name in used:
            j += 1
            name = prefix + s + str(j)
        used.add(name)
        out.append(name)
    return out


def datetime_resolution(evalue):
    """resolution of an enum datetime value as the generator spells it."""
    return {4: "Y", 7: "M", 10: "D"}[len(evalue)]


DATETIME_IN = {"Y": "%Y", "M": "%Y-%m", "D": "%Y-%m-%d"}
DATETIME_OUT = {"Y": "%Y", "M": "%b %Y", "D": "%d %b %Y"}


@st.composite
def categories_st(draw, min_valid=1, max_valid=5, max_missing=2, flavour="cat",
                  numeric="some"):
    nv = draw(st.integers(min_valid, max_valid))
    nm = draw(st.integers(0, max_missing))
    if flavour in ("datetime", "text", "numeric"):
        # --- enum-backed: ids are positions (zz9), missing element has value {"?": -1}
        total = nv + nm
        miss_pos = draw(st.lists(st.integers(0, total - 1), min_size=nm, max_size=nm,
                                 unique=True)) if nm else []
        cats = []
        vi = 0
        # datetime resolution: monthly, yearly (bare-year values look like numbers) or daily
        res = draw(st.sampled_from(["M", "M", "Y", "D"])) if flavour == "datetime" else None
        for pos in range(total):
            missing = pos in miss_pos
            if missing:
                cats.append({"id": pos if flavour != "numeric" else -1 - pos,
                             "name": "", "missing": True, "value": None,
                             "evalue": {"?": -1}})
                continue
            if flavour == "datetime":
                ev = {"M": "20%02d-%02d" % (10 + vi // 12, 1 + vi % 12),
                      "Y": "%d" % (2010 + vi),
                      "D": "2010-01-%02d" % (1 + vi)}[res]
            elif flavour == "text":
                ev = "t%d" % vi
            else:
                ev = [vi * 10, vi * 10 + 10]
            vi += 1
            cats.append({"id": pos, "name": None, "missing": False, "value": None,
                         "evalue": ev})
        return cats
    if flavour == "logical":
        return [
            {"id": 1, "name": "Selected", "missing": False, "value": 1, "selected": True},
            {"id": 0, "name": "Other", "missing": False, "value": 0},
            {"id": -1, "name": "No Data", "missing": True, "value": None},
        ]
    total = nv + nm
    ids = draw(st.lists(st.integers(0, 14), min_size=total, max_size=total, unique=True))
    miss_pos = set(
        draw(st.lists(st.integers(0, total - 1), min_size=nm, max_size=nm, unique=True))
        if nm else []
    )
    names = draw(names_st(total))
    cats = []
    for pos in range(total):
        missing = pos in miss_pos
        if numeric == "none" or missing:
            val = None
        elif numeric == "all":
            val = draw(st.integers(-3, 6))
        else:
            val = draw(st.one_of(st.none(), st.integers(-3, 6), st.sampled_from([0.5, 2.5])))
        c = {"id": ids[pos], "name": names[pos], "missing": missing, "value": val}
        if flavour == "cat_date" and not missing:
            c["date"] = "20%02d-%02d" % (10 + pos // 12, 1 + pos % 12)
        cats.append(c)
    if flavour == "cat_date":
        # some valid categories may be undated (e.g. a "Pilot" ahead of the waves); the
        # variable stays categorical-date as long as any category carries a date
        dated = [c for c in cats if "date" in c]
        if len(dated) > 1 and draw(st.integers(0, 3)) == 0:
            for c in draw(st.lists(st.sampled_from(dated), min_size=1, max_size=len(dated) - 1,
                                   unique_by=lambda c: c["id"])):
                del c["date"]
        if not any("date" in c for c in cats):
            cats[0]["date"] = "2010-01"
    return cats


@st.composite
def answers_st(draw, ids, n, skew=True):
    """n answers drawn from `ids`; skewed so that some categories stay empty."""
    if not ids or n == 0:
        return [ids[0]] * n if ids else []
    if skew and len(ids) > 1 and draw(st.booleans()):
        k = draw(st.integers(1, len(ids)))
        pool = ids[:k] if draw(st.booleans()) else ids[-k:]
    else:
        pool = ids
    return draw(st.lists(st.sampled_from(pool), min_size=n, max_size=n))


@st.composite
def cat_var_st(draw, alias, n, flavour="cat", min_valid=1, max_valid=5, max_missing=2,
               numeric="some", allow_order_key=True, skew=True):
    cats = draw(categories_st(min_valid, max_valid, max_missing, flavour, numeric))
    ids = [c["id"] for c in cats]
    if not skew:
        # favour valid categories so that tables are well populated
        ids = ids + [c["id"] for c in cats if not c["missing"]] * 2
    answers = draw(answers_st(ids, n, skew))
    ids = [c["id"] for c in cats]
    use_order = False
    if allow_order_key and flavour in ("cat", "cat_date") and len(cats) > 1:
        use_order = draw(st.integers(0, 5)) == 0
    var = {
        "type": "cat", "flavour": flavour, "alias": alias, "name": alias.upper(),
        "cats": cats, "answers": answers, "use_order_key": use_order,
        "view_insertions": None,
    }
    if use_order:
        var["order"] = draw(st.permutations(ids))
    return var


@st.composite
def items_st(draw, alias, min_items=1, max_items=4, eid_scheme=None):
    k = draw(st.integers(min_items, max_items))
    scheme = eid_scheme or draw(st.sampled_from(["one", "zero", "sparse"]))
    if scheme == "one":
        eids = list(range(1, k + 1))
    elif scheme == "zero":
        eids = list(range(k))
    else:
        eids = sorted(draw(st.lists(st.integers(1, 12), min_size=k, max_size=k, unique=True)))
    names = draw(names_st(k, prefix="i"))
    # aliases are case-sensitive identifiers: some carry upper-case characters
    upper = draw(st.lists(st.booleans(), min_size=k, max_size=k))
    return [
        {"eid": eids[i], "sid": "%04d" % (eids[i] + 100),
         "alias": ("%s_Q%d" if upper[i] else "%s_%d") % (alias, i + 1), "name": names[i]}
        for i in range(k)
    ]


@st.composite
def mr_var_st(draw, alias, n, min_items=1, max_items=4, eid_scheme=None, derived=False):
    items = draw(items_st(alias, min_items, max_items, eid_scheme))
    k = len(items)
    # --- per-item missingness: some items "not shown" to many respondents
    answers = []
    profile = [draw(st.sampled_from(["mixed", "mixed", "nosel", "missheavy", "allmiss"]))
               for _ in range(k)]
    pools = {"mixed": [1, 0, 0, -1, 1], "nosel": [0, 0, -1], "missheavy": [-1, -1, 1, 0],
             "allmiss": [-1]}
    cols = [draw(st.lists(st.sampled_from(pools[profile[i]]), min_size=n, max_size=n))
            for i in range(k)]
    for r in range(n):
        answers.append([cols[i][r] for i in range(k)])
    var = {"type": "mr", "alias": alias, "name": alias.upper(), "items": items,
           "answers": answers}
    if derived and k >= 1 and draw(st.booleans()):
        add_derived_item(draw, var)
    return var


def add_derived_item(draw, var):
    """A zz9-computed 'insertion' on an MR: a derived sub-variable (any_selected of some
    items) placed in the payload at its anchor, plus the view insertion describing it."""
    items = var["items"]
    k = len(items)
    src = draw(st.lists(st.integers(0, k - 1), min_size=1, max_size=2, unique=True))
    anchor_kind = draw(st.sampled_from(["top", "bottom", "before", "after"]))
    target = draw(st.integers(0, k - 1))
    if anchor_kind in ("top", "bottom"):
        anchor = anchor_kind
        pos = 0 if anchor_kind == "top" else k
    else:
        anchor = {"position": anchor_kind, "alias": items[target]["alias"]}
        pos = target if anchor_kind == "before" else target + 1
    name = "any_" + "_".join(str(i) for i in src)
    new_eid = max(it["eid"] for it in items) + 1
    ditem = {"eid": new_eid, "sid": name, "alias": "%s_d" % var["alias"], "name": name,
             "derived": True, "anchor": anchor}
    items.insert(pos, ditem)
    for a in var["answers"]:
        states = [a[i] for i in src]
        st_ = 1 if 1 in states else (-1 if all(x == -1 for x in states) else 0)
        a.insert(pos, st_)
    var["view_insertions"] = [{"function": "any_selected", "name": name, "anchor": anchor,
                               "kwargs": {"variable": var["alias"],
                                          "subvariable_ids": [items[i if i < pos else i + 1]["alias"]
                                                              for i in src]}}]


@st.composite
def ca_var_st(draw, alias, n, min_items=1, max_items=3, min_valid=1, max_valid=4,
              max_missing=2, numeric="some", skew=True):
    items = draw(items_st(alias, min_items, max_items))
    cats = draw(categories_st(min_valid, max_valid, max_missing, "cat", numeric))
    ids = [c["id"] for c in cats]
    cols = [draw(answers_st(ids, n, skew)) for _ in items]
    answers = [[cols[i][r] for i in range(len(items))] for r in range(n)]
    return {"type": "ca", "alias": alias, "name": alias.upper(), "items": items,
            "cats": cats, "answers": answers}


NUMX = st.one_of(st.none(), st.integers(-5, 20), st.sampled_from([0.5, 1.5, 2.25, -0.75]))


@st.composite
def num_var_st(draw, alias, n):
    vals = draw(st.lists(NUMX, min_size=n, max_size=n))
    return {"type": "num", "alias": alias, "name": alias.upper(), "values": vals}


@st.composite
def numarr_var_st(draw, alias, n, min_items=1, max_items=3):
    items = draw(items_st(alias, min_items, max_items, eid_scheme="zero"))
    cols = [draw(st.lists(NUMX, min_size=n, max_size=n)) for _ in items]
    values = [[cols[i][r] for i in range(len(items))] for r in range(n)]
    return {"type": "numarr", "alias": alias, "name": alias.upper(), "items": items,
            "values": values}


@st.composite
def n_st(draw, max_n=24, min_n=0):
    if min_n > 3:
        return draw(st.integers(min_n, max_n))
    return draw(st.one_of(st.integers(0, 3), st.integers(4, 14), st.integers(4, max_n)))
