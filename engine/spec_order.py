"""Executable specification of display order and visibility (C07, C09; reused by C05/C08).

Written from the property statements, constructively (no sort keys):

  * which insertion dicts define a subtotal at all (`valid_insertions`)
  * anchored order: base sequence (payload, or explicit: first mention wins, unknown ids
    ignored, leftovers in payload order), top-anchored insertions first in definition
    order, every other insertion right after its anchor element in definition order,
    bottom / None / stale / missing-category anchors last in definition order
  * hidden and pruned base elements are dropped last; subtotals are dropped only when the
    *opposing* dimension prunes and all its base vectors are empty

Tokens: ("el", index among valid elements) / ("ins", index among valid insertions).
"""


def valid_insertions(insertions, valid_ids):
    """Insertion dicts that define a displayed subtotal, in definition order."""
    out = []
    vset = set(valid_ids)
    for ins in insertions or []:
        if not isinstance(ins, dict):
            continue
        if ins.get("function") != "subtotal":
            continue
        if ins.get("hide") is True:
            continue
        if "anchor" not in ins or "name" not in ins:
            continue
        kw = ins.get("kwargs") or {}
        pos = kw.get("positive") or ins.get("args") or []
        neg = kw.get("negative") or []
        if not (pos or neg):
            continue
        if not vset.intersection(list(pos) + list(neg)):
            continue
        out.append(ins)
    return out


def norm_anchor(anchor, valid_ids):
    """'top' | 'bottom' | valid element id."""
    if anchor is None:
        return "bottom"
    try:
        a = int(anchor)
    except (TypeError, ValueError):
        return str(anchor).lower()
    return a if a in set(valid_ids) else "bottom"


def base_sequence(valid_ids, explicit_ids=None):
    """Indices of valid elements in base display sequence."""
    n = len(valid_ids)
    if explicit_ids is None:
        return list(range(n))
    seq = []
    for eid in explicit_ids:
        if eid in valid_ids:
            i = valid_ids.index(eid)
            if i not in seq:
                seq.append(i)
    seq += [i for i in range(n) if i not in seq]
    return seq


def anchored_tokens(valid_ids, insertions, explicit_ids=None, hidden_idxs=(),
                    drop_subtotals=False):
    """Display tokens for an anchored (payload / explicit) order."""
    vins = valid_insertions(insertions, valid_ids)
    anchors = [norm_anchor(i["anchor"], valid_ids) for i in vins]
    out = []
    for k, a in enumerate(anchors):
        if a == "top":
            out.append(("ins", k))
    for i in base_sequence(valid_ids, explicit_ids):
        out.append(("el", i))
        for k, a in enumerate(anchors):
            if a == valid_ids[i] and a not in ("top", "bottom"):
                out.append(("ins", k))
    for k, a in enumerate(anchors):
        if a == "bottom":
            out.append(("ins", k))
    hidden = set(hidden_idxs)
    return [t for t in out
            if not (t[0] == "el" and t[1] in hidden) and not (t[0] == "ins" and drop_subtotals)]


def signed(tokens, n_insertions):
    return [t[1] if t[0] == "el" else t[1] - n_insertions for t in tokens]


def insertion_numbers(insertions, valid_ids, from_view):
    """The N of 'ins_N' for each valid insertion (definition order)."""
    vins = valid_insertions(insertions, valid_ids)
    if all("id" in i for i in vins):
        return [i["id"] for i in vins]
    if not from_view:
        return [i["id"] if "id" in i else k + 1 for k, i in enumerate(vins)]
    # --- defined on the variable: 1-based rank in payload display order
    toks = anchored_tokens(valid_ids, vins)
    rank = {}
    r = 0
    for t in toks:
        if t[0] == "ins":
            r += 1
            rank[t[1]] = r
    return [i["id"] if "id" in i else rank[k] for k, i in enumerate(vins)]


def array_tokens(items, explicit_aliases=None, hidden_idxs=()):
    """Display tokens of an array dimension (no subtotals) whose payload may contain derived
    (zz9-computed) items.  Payload order: as delivered.  Explicit order: the listed order
    applies to the NON-derived items (first mention wins, unknown and derived ids ignored,
    leftovers in payload order); each derived item is then re-anchored: `top` first, `before`
    / `after` its anchor alias, `bottom` / missing / unknown anchor last; several derived
    items at the same place keep payload order."""
    n = len(items)
    hidden = set(hidden_idxs)
    if explicit_aliases is None:
        return [("el", i) for i in range(n) if i not in hidden]
    derived = [i for i, it in enumerate(items) if it.get("derived")]
    base = [i for i in range(n) if i not in derived]
    aliases = [it["alias"] for it in items]
    seq = []
    for a in explicit_aliases:
        if a in aliases:
            i = aliases.index(a)
            if i in base and i not in seq:
                seq.append(i)
    seq += [i for i in base if i not in seq]

    def place(i):
        anchor = items[i].get("anchor")
        if anchor is None:
            return ("bottom", None)
        if anchor == "top":
            return ("top", None)
        if anchor == "bottom":
            return ("bottom", None)
        target = anchor.get("alias")
        if target not in aliases or aliases.index(target) not in base:
            return ("bottom", None)
        return ("before" if anchor.get("position") == "before" else "after",
                aliases.index(target))

    places = {i: place(i) for i in derived}
    out = [i for i in derived if places[i][0] == "top"]
    for b in seq:
        out += [i for i in derived if places[i] == ("before", b)]
        out.append(b)
        out += [i for i in derived if places[i] == ("after", b)]
    out += [i for i in derived if places[i][0] == "bottom"]
    return [("el", i) for i in out if i not in hidden]
