"""python -m engine.probe <file.json>  - evaluate the cubes described in the file in THIS
interpreter (whatever its PYTHONHASHSEED) and print a JSON digest of every public output.

File: {"responses": [...], "transforms": [...], "population": p, "mask_size": m, "as_set": bool}
Used by C18 `hash-seed`: results must not depend on the interpreter's hash seed.
"""
import json
import sys


def main():
    from engine import env

    env.pin()
    import warnings

    warnings.simplefilter("ignore")
    from engine import lib, observe
    from engine.cmp import jsonable

    spec = json.load(open(sys.argv[1]))
    out = {}
    if spec["as_set"]:
        cs = lib.CubeSet(spec["responses"], spec["transforms"], spec["population"],
                         spec["mask_size"])
        parts = [("set", k, j, p) for k, ps in enumerate(cs.partition_sets)
                 for j, p in enumerate(ps)]
        for prop in ("name", "description", "has_weighted_counts", "n_responses",
                     "population_fraction", "available_measures"):
            try:
                v = getattr(cs, prop)
                out["set.%s" % prop] = sorted(str(x) for x in v) if isinstance(
                    v, (set, frozenset)) else jsonable(v)
            except Exception as e:  # noqa
                out["set.%s" % prop] = "raised %s" % type(e).__name__
    else:
        parts = []
        for j, (r, t) in enumerate(zip(spec["responses"], spec["transforms"])):
            c = lib.Cube(r, transforms=t, population=spec["population"],
                         mask_size=spec["mask_size"])
            parts += [("cube", k, j, p) for k, p in enumerate(c.partitions)]
    for kind, k, j, p in parts:
        snap = observe.snapshot(p)
        for name, v in snap.items():
            key = "%s.%d.%d.%s" % (kind, k, j, name)
            if isinstance(v, observe.Raised):
                out[key] = "raised %s" % v.type
            elif name in ("min_base_size_mask", "pairwise_significance_tests"):
                continue  # objects (addresses in their repr), their values are read elsewhere
            elif name == "available_measures" or isinstance(v, (set, frozenset)):
                out[key] = sorted(str(x) for x in v)
            else:
                try:
                    out[key] = jsonable(v)
                except Exception:  # noqa
                    out[key] = repr(v)
    json.dump(out, sys.stdout, sort_keys=True, default=repr)


if __name__ == "__main__":
    main()
