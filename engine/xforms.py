"""Strategies for transforms dictionaries (insertions, order, hide, prune, ...).

Only inputs the callers are documented / observed to send are generated: anchors are
"top"/"bottom" (any case), None, or an element id (int or numeric string; valid, missing
or stale); element references are ids.  Insertion names are unique ("S0", "S1", ...), so
a displayed insertion can be identified by its label.
"""
from hypothesis import strategies as st

STALE = 97


@st.composite
def insertion_st(draw, j, valid_ids, other_ids=(), allow_diff=True, allow_malformed=True,
                 with_id=None, anchors="all"):
    pool = list(valid_ids) + list(other_ids) + [STALE]
    # --- addends: mostly valid ids, sometimes missing / stale / repeated
    adds = draw(st.lists(st.sampled_from(list(valid_ids) * 3 + pool), min_size=1, max_size=3))
    subs = []
    if allow_diff and draw(st.integers(0, 3)) == 0:
        subs = draw(st.lists(st.sampled_from(pool), min_size=1, max_size=2))
    anchor_pool = ["top", "bottom"] + list(valid_ids) * 2
    if anchors == "all":
        anchor_pool += ["TOP", "Bottom", None, STALE] + [str(v) for v in valid_ids] + \
            list(other_ids)
    anchor = draw(st.sampled_from(anchor_pool))
    ins = {"function": "subtotal", "name": "S%d" % j, "anchor": anchor}
    if subs or draw(st.booleans()):
        ins["kwargs"] = {"positive": adds}
        if subs:
            ins["kwargs"]["negative"] = subs
        if draw(st.integers(0, 4)) == 0:
            ins["args"] = adds  # both spellings present: kwargs wins
    else:
        ins["args"] = adds
    if with_id is True or (with_id is None and draw(st.booleans())):
        ins["id"] = 10 + j * 3 + draw(st.integers(0, 2))
    if allow_malformed:
        k = draw(st.integers(0, 24))
        if k == 0:
            ins["hide"] = True
        elif k == 1:
            del ins["name"]
        elif k == 2:
            ins["function"] = "other"
        elif k == 3:
            del ins["anchor"]
    if draw(st.integers(0, 5)) == 0:
        ins["alias"] = "s_alias_%d" % j
    return ins


@st.composite
def insertions_st(draw, valid_ids, other_ids=(), max_ins=3, min_ins=0, **kw):
    if not valid_ids:
        return []
    k = draw(st.integers(min_ins, max_ins))
    out = []
    ids_all = None
    for j in range(k):
        out.append(draw(insertion_st(j, valid_ids, other_ids, **kw)))
    # --- ids are either on all or on some; make them distinct when present
    seen = set()
    for ins in out:
        if "id" in ins:
            while ins["id"] in seen:
                ins["id"] += 1
            seen.add(ins["id"])
    return out


def dim_ids(var, part=None):
    """(valid ids, missing ids) of a categorical-like dimension; ([], []) for arrays."""
    if var["type"] == "cat" or (var["type"] == "ca" and part == "cats"):
        if var.get("flavour") in ("datetime", "text", "numeric", "logical"):
            # enum-backed and logical dimensions: insertions are legal but rare in
            # practice; datetime ids are shimmed to values, keep them out of insertion tests
            pass
        v = [c["id"] for c in var["cats"] if not c["missing"]]
        m = [c["id"] for c in var["cats"] if c["missing"]]
        return v, m
    return [], []


def can_insert(var, part=None):
    if var["type"] == "cat":
        return var.get("flavour", "cat") in ("cat", "cat_date", "logical", "text", "numeric")
    return var["type"] == "ca" and part == "cats"


@st.composite
def slice_insertions_st(draw, scenario, where="transforms", max_ins=3, **kw):
    """Insertions for the rows / columns dimension of a 2-D (or 3-D) scenario.

    Returns (transforms dict, {"rows": [...], "cols": [...]}) - the second is the list
    of insertion dicts in force on each dimension (view or transform).
    """
    sv, q = scenario["survey"], scenario["query"]
    dims = q["dims"][-2:] if len(q["dims"]) >= 2 else q["dims"][-1:]
    if q.get("measure") and sv["vars"][q["measure"]["var"]]["type"] == "numarr":
        # numeric array is the (synthetic) rows dimension; last query dim is columns
        dims = [None] + q["dims"][-1:] if len(q["dims"]) >= 1 else [None]
    names = ["rows_dimension", "columns_dimension"]
    tx = {}
    inforce = {"rows": [], "cols": []}
    for name, key, d in zip(names, ("rows", "cols"), dims):
        if d is None:
            continue
        var = sv["vars"][d["var"]]
        if not can_insert(var, d.get("part")):
            continue
        if draw(st.integers(0, 3)) == 0:
            continue
        v, m = dim_ids(var, d.get("part"))
        ins = draw(insertions_st(v, m, max_ins=max_ins, **kw))
        place = where if where != "either" else draw(
            st.sampled_from(["transforms", "view", "both"]))
        if place == "view" and var["type"] == "cat":
            var["view_insertions"] = ins
        else:
            tx.setdefault(name, {})["insertions"] = ins
            if place == "both" and var["type"] == "cat":
                # the variable carries its own (different) insertions; the analysis' win
                var["view_insertions"] = draw(insertions_st(v, m, max_ins=max_ins, **kw))
        inforce[key] = ins
    return tx, inforce


# --------------------------------------------------------------------------- order / hide
class Refs(list):
    """Element references of the valid elements; `.missing` = references of the elements that
    are present in the response but flagged missing (a client may list them all the same -
    they must be ignored like stale ones)."""
    missing = ()


def element_refs(var, part=None):
    """Canonical element references (ids) of the valid elements of a dimension, as a
    transform would spell them: category ids, or sub-variable aliases for array items."""
    if var["type"] == "cat" or (var["type"] == "ca" and part == "cats"):
        if var.get("flavour") == "datetime":
            out = Refs(c["evalue"] for c in var["cats"] if not c["missing"])
            # a datetime element is addressed by value or by position id; the missing
            # element has no value to be addressed by
            out.missing = tuple(c["id"] for c in var["cats"] if c["missing"])
            if out.missing:
                # a client that lists the elements by VALUE sends the missing element's
                # value too - the dict {"?": -1}
                out.missing = out.missing + ({"?": -1},)
            return out
        cats = var["cats"]
        if var.get("use_order_key"):
            by = {c["id"]: c for c in cats}
            cats = [by[i] for i in var["order"]]
        out = Refs(c["id"] for c in cats if not c["missing"])
        out.missing = tuple(c["id"] for c in var["cats"] if c["missing"])
        return out
    return Refs(it["alias"] for it in var["items"])


def _stale_pool(refs):
    miss = list(getattr(refs, "missing", ()))
    return [STALE] + miss + [str(m) for m in miss[:1] if not isinstance(m, dict)]


@st.composite
def explicit_ids_st(draw, refs, stale=None):
    pool = list(refs) * 2 + list(_stale_pool(refs) if stale is None else stale)
    return draw(st.lists(st.sampled_from(pool), min_size=0, max_size=len(refs) + 2))


@st.composite
def hide_prune_st(draw, refs, p_hide=3, p_prune=3):
    """(elements transform dict or None, prune flag)"""
    elements = {}
    if refs and draw(st.integers(0, p_hide)) == 0:
        hid = draw(st.lists(st.sampled_from(list(refs)), min_size=1, max_size=2, unique=True))
        for h in hid:
            elements[str(h)] = {"hide": True}
        miss = list(getattr(refs, "missing", ()))
        if miss and draw(st.integers(0, 3)) == 0:
            elements[str(miss[0])] = {"hide": True}  # already absent: no visible effect
    prune = draw(st.integers(0, p_prune)) == 0
    return elements, prune


# --------------------------------------------------------------------------- sort orders
# numeric-array cubes: column index / residuals are not defined across sub-variables
NUMARR_MEASURES = ["mean", "sum", "stddev", "count_unweighted", "valid_count_unweighted",
                   "count_weighted", "valid_count_weighted", "col_base_unweighted",
                   "row_base_unweighted", "col_share_sum", "row_share_sum", "total_share_sum"]
SORTABLE_MEASURES = [
    "col_base_unweighted", "col_base_weighted", "col_index", "col_percent", "col_percent_moe",
    "col_share_sum", "col_std_dev", "col_std_err", "mean", "population", "population_moe",
    "p_value", "row_base_unweighted", "row_base_weighted", "row_percent", "row_percent_moe",
    "row_share_sum", "row_std_dev", "row_std_err", "stddev", "sum", "table_base_unweighted",
    "table_base_weighted", "table_percent", "table_percent_moe", "table_std_dev",
    "table_std_err", "total_share_sum", "count_unweighted", "valid_count_unweighted",
    "count_weighted", "valid_count_weighted", "z_score",
]
MARGINALS = ["unweighted_base", "weighted_base", "table_proportion", "scale_mean",
             "scale_mean_stddev", "scale_mean_stderr", "scale_median"]
STRAND_MEASURES = ["base_unweighted", "base_weighted", "count_unweighted", "count_weighted",
                   "mean", "percent", "percent_moe", "percent_stddev", "percent_stderr",
                   "population", "population_moe", "share_sum", "sum", "stddev",
                   "valid_count_unweighted", "valid_count_weighted"]


@st.composite
def fixed_st(draw, refs):
    if not refs or draw(st.integers(0, 2)) != 0:
        return None
    pool = list(refs) * 3 + _stale_pool(refs)
    fixed = {}
    if draw(st.booleans()):
        fixed["top"] = draw(st.lists(st.sampled_from(pool), min_size=1, max_size=2))
    if draw(st.booleans()):
        fixed["bottom"] = draw(st.lists(st.sampled_from(pool), min_size=1, max_size=2))
    return fixed or None


@st.composite
def order_st(draw, own_refs, opp_refs, opp_insertion_ids, axis, kinds=None, measures=None):
    """An `order` dict for one dimension.  axis: rows | cols | strand."""
    measures = measures or SORTABLE_MEASURES
    if kinds is None:
        if axis == "strand":
            kinds = ["payload", "explicit", "label", "univariate_measure",
                     "univariate_measure"]
        elif axis == "rows":
            kinds = ["payload", "explicit", "label", "opposing_element", "opposing_element",
                     "opposing_insertion", "marginal", "marginal"]
        else:
            kinds = ["payload", "explicit", "label", "opposing_element", "opposing_element",
                     "opposing_insertion"]
    kind = draw(st.sampled_from(kinds))
    if kind == "payload":
        return None if draw(st.booleans()) else {"type": "payload_order"}
    if kind == "explicit":
        return {"type": "explicit", "element_ids": draw(explicit_ids_st(own_refs))}
    order = {"type": kind}
    if draw(st.booleans()):
        order["direction"] = draw(st.sampled_from(["ascending", "descending"]))
    fixed = draw(fixed_st(own_refs))
    if fixed:
        order["fixed"] = fixed
    if kind == "opposing_element":
        order["element_id"] = draw(st.sampled_from(list(opp_refs) * 4 + [STALE])) \
            if opp_refs else STALE
        order["measure"] = draw(st.sampled_from(measures))
    elif kind == "opposing_insertion":
        # unknown insertion ids include ids that name an ELEMENT of the opposing dimension
        stale = [STALE] + [r for r in list(opp_refs)[:2] if r not in opp_insertion_ids]
        order["insertion_id"] = draw(st.sampled_from(list(opp_insertion_ids) * 4 + stale)) \
            if opp_insertion_ids else draw(st.sampled_from(stale))
        order["measure"] = draw(st.sampled_from(measures))
    elif kind == "marginal":
        order["marginal"] = draw(st.sampled_from(MARGINALS))
    elif kind == "univariate_measure":
        order["measure"] = draw(st.sampled_from(STRAND_MEASURES))
    return order
