"""Strategies for transforms dictionaries (insertions, order, hide, prune, ...).

Only inputs the callers are documented / observed to send are generated: anchors are
"top"/"bottom" (any case), None, or an element id (int or numeric string; valid, missing
or stale); element references are ids.  Insertion names are unique ("S0", "S1", ...), so
a displayed insertion can be identified by its label.
"""
from hypothesis import strategies as st

STALE = 97


@st.composite
def insertion_st(draw, j, valid_ids, other_ids=(), allow_diff=True, allow_malformed=True,
                 with_id=None, anchors="all"):
    pool = list(valid_ids) + list(other_ids) + [STALE]
    # --- addends: mostly valid ids, sometimes missing / stale / repeated
    adds = draw(st.lists(st.sampled_from(list(valid_ids) * 3 + pool), min_size=1, max_size=3))
    subs = []
    if allow_diff and draw(st.integers(0, 3)) == 0:
        subs = draw(st.lists(st.sampled_from(pool), min_size=1, max_size=2))
    anchor_pool = ["top", "bottom"] + list(valid_ids) * 2
    if anchors == "all":
        anchor_pool += ["TOP", "Bottom", None, STALE] + [str(v) for v in valid_ids] + \
            list(other_ids)
    anchor = draw(st.sampled_from(anchor_pool))
    ins = {"function": "subtotal", "name": "S%d" % j, "anchor": anchor}
    if subs or draw(st.booleans()):
        ins["kwargs"] = {"positive": adds}
        if subs:
            ins["kwargs"]["negative"] = subs
        if draw(st.integers(0, 4)) == 0:
            ins["args"] = adds  # both spellings present: kwargs wins
    else:
        ins["args"] = adds
    if with_id is True or (with_id is None and draw(st.booleans())):
        ins["id"] = 10 + j * 3 + draw(st.integers(0, 2))
    if allow_malformed:
        k = draw(st.integers(0, 24))
        if k == 0:
            ins["hide"] = True
        elif k == 1:
            del ins["name"]
        elif k == 2:
            ins["function"] = "other"
        elif k == 3:
            del ins["anchor"]
    if draw(st.integers(0, 5)) == 0:
        ins["alias"] = "s_alias_%d" % j
    return ins


@st.composite
def insertions_st(draw, valid_ids, other_ids=(), max_ins=3, min_ins=0, **kw):
    if not valid_ids:
        return []
    k = draw(st.integers(min_ins, max_ins))
    out = []
    ids_all = None
    for j in range(k):
        out.append(draw(insertion_st(j, valid_ids, other_ids, **kw)))
    # --- ids are either on all or on some; make them distinct when present
    seen = set()
    for ins in out:
        if "id" in ins:
            while ins["id"] in seen:
                ins["id"] += 1
            seen.add(ins["id"])
    return out


def dim_ids(var, part=None):
    """(valid ids, missing ids) of a categorical-like dimension; ([], []) for arrays."""
    if var["type"] == "cat" or (var["type"] == "ca" and part == "cats"):
        if var.get("flavour") in ("datetime", "text", "numeric", "logical"):
            # enum-backed and logical dimensions: insertions are legal but rare in
            # practice; datetime ids are shimmed to values, keep them out of insertion tests
            pass
        v = [c["id"] for c in var["cats"] if not c["missing"]]
        m = [c["id"] for c in var["cats"] if c["missing"]]
        return v, m
    return [], []


def can_insert(var, part=None):
    if var["type"] == "cat":
        return var.get("flavour", "cat") in ("cat", "cat_date", "logical", "text", "numeric")
    return var["type"] == "ca" and part == "cats"


@st.composite
def slice_insertions_st(draw, scenario, where="transforms", max_ins=3, **kw):
    """Insertions for the rows / columns dimension of a 2-D (or 3-D) scenario.

    Returns (transforms dict, {"rows": [...], "cols": [...]}) - the second is the list
    of insertion dicts in force on each dimension (view or transform).
    """
    sv, q = scenario["survey"], scenario["query"]
    dims = q["dims"][-2:] if len(q["dims"]) >= 2 else q["dims"][-1:]
    if q.get("measure") and sv["vars"][q["measure"]["var"]]["type"] == "numarr":
        # numeric array is the (synthetic) rows dimension; last query dim is columns
        dims = [None] + q["dims"][-1:] if len(q["dims"]) >= 1 else [None]
    names = ["rows_dimension", "columns_dimension"]
    tx = {}
    inforce = {"rows": [], "cols": []}
    for name, key, d in zip(names, ("rows", "cols"), dims):
        if d is None:
            continue
        var = sv["vars"][d["var"]]
        if not can_insert(var, d.get("part")):
            continue
        if draw(st.integers(0, 3)) == 0:
            continue
        v, m = dim_ids(var, d.get("part"))
        ins = draw(insertions_st(v, m, max_ins=max_ins, **kw))
        place = where if where != "either" else draw(st.sampled_from(["transforms", "view"]))
        if place == "view" and var["type"] == "cat":
            var["view_insertions"] = ins
        else:
            tx.setdefault(name, {})["insertions"] = ins
        inforce[key] = ins
    return tx, inforce


# --------------------------------------------------------------------------- order / hide
def element_refs(var, part=None):
    """Canonical element references (ids) of the valid elements of a dimension, as a
    transform would spell them: category ids, or sub-variable aliases for array items."""
    if var["type"] == "cat" or (var["type"] == "ca" and part == "cats"):
        if var.get("flavour") == "datetime":
            return [c["evalue"] for c in var["cats"] if not c["missing"]]
        cats = var["cats"]
        if var.get("use_order_key"):
            by = {c["id"]: c for c in cats}
            cats = [by[i] for i in var["order"]]
        return [c["id"] for c in cats if not c["missing"]]
    return [it["alias"] for it in var["items"]]


@st.composite
def explicit_ids_st(draw, refs, stale=(STALE,)):
    pool = list(refs) * 2 + list(stale)
    return draw(st.lists(st.sampled_from(pool), min_size=0, max_size=len(refs) + 2))


@st.composite
def hide_prune_st(draw, refs, p_hide=3, p_prune=3):
    """(elements transform dict or None, prune flag)"""
    elements = {}
    if refs and draw(st.integers(0, p_hide)) == 0:
        hid = draw(st.lists(st.sampled_from(list(refs)), min_size=1, max_size=2, unique=True))
        for h in hid:
            elements[str(h)] = {"hide": True}
    prune = draw(st.integers(0, p_prune)) == 0
    return elements, prune
