"""Thin access layer to the library under test (always on deep copies: the library
rewrites argument dictionaries in place, and no check except C18 wants to depend on it)."""
import copy

from . import env

env.pin()

from cr.cube.cube import Cube, CubeSet  # noqa: E402
from cr.cube.enums import ORDER_FORMAT  # noqa: E402


def cube(response, transforms=None, population=None, mask_size=0, cube_idx=None):
    return Cube(
        copy.deepcopy(response),
        cube_idx=cube_idx,
        transforms=copy.deepcopy(transforms),
        population=population,
        mask_size=mask_size,
    )


def partitions(response, transforms=None, population=None, mask_size=0):
    return cube(response, transforms, population, mask_size).partitions


def display_specs(order, labels, odim, insertions):
    """Vector spec for every display position.

    `order` is the signed display order (>= 0: index among valid elements; < 0: an
    insertion).  Insertions are identified by their (unique) name, read from `labels`.
    """
    from .oracle import insertion_spec

    by_name = {}
    for ins in insertions or []:
        if isinstance(ins, dict) and "name" in ins:
            by_name.setdefault(ins["name"], ins)
    specs = []
    for pos, idx in enumerate(order):
        idx = int(idx)
        if idx >= 0:
            specs.append(("el", odim.keys[idx]))
        else:
            specs.append(insertion_spec(odim, by_name[str(labels[pos])]))
    return specs


def _orders(part):
    from cr.cube.enums import ORDER_FORMAT
    for meth in ("row_order", "column_order"):
        f = getattr(part, meth, None)
        if f is None:
            continue
        for fmt in (ORDER_FORMAT.BOGUS_IDS, ORDER_FORMAT.SIGNED_INDEXES):
            try:
                f(fmt)
            except Exception:  # noqa - see warm()
                pass


def warm(part, idxs):
    """Read a drawn selection of OTHER public outputs first (exceptions ignored): a value
    check then also notices outputs that disturb each other through cached intermediates."""
    from .observe import public_lazyproperties
    names = public_lazyproperties(type(part))
    if idxs:
        # the display order in its 'ins_N' rendering (a method, not a lazyproperty) is part
        # of the access history too: requested first for every other non-empty warm-up
        if abs(idxs[0]) % 2 == 0:
            _orders(part)
    if idxs and idxs[0] < 0:
        # "all": every other public output, starting at a drawn offset
        k = (-idxs[0]) % len(names)
        idxs = list(range(k, len(names))) + list(range(k))
    for i in idxs or ():
        try:
            getattr(part, names[i % len(names)])
        except Exception:  # noqa - availability of these outputs is not the point here
            pass
