"""Snapshot every public output of a partition, with the shape class of each output.

Kinds:  M  rows x cols matrix           R  one value per displayed row
        C  one value per displayed col  RM / CM  margin: 1-D (R / C) or 2-D (M) by ndim
        T  table base/margin: scalar, R, C or M depending on which dimensions are arrays
        S  scalar / invariant under display transforms
        PI matrix of tuples of column positions    PC per-column tuples of column positions
        RI / CI tuples of row / column positions
        X  exempt (shape-derived or order itself)

Properties found by introspection that are not in the table are classified generically
(2-D array of the partition's shape -> M, scalar -> S) and counted as 'unclassified'.
"""
import inspect

import numpy as np

from . import lib  # noqa: F401  (pins the library)
from cr.cube.cubepart import _Slice, _Strand
from cr.cube.util import lazyproperty

SLICE_KINDS = {
    # matrices
    **{n: "M" for n in (
        "column_index column_percentages column_proportion_variances column_proportions "
        "column_proportions_moe column_share_sum column_std_dev column_std_err "
        "column_unweighted_bases column_weighted_bases counts means medians "
        "population_counts population_counts_moe population_proportions population_std_err "
        "pvals pvalues row_percentages row_proportion_variances row_proportions "
        "row_proportions_moe row_share_sum row_std_dev row_std_err row_unweighted_bases "
        "row_weighted_bases smoothed_column_index smoothed_column_percentages "
        "smoothed_column_proportions smoothed_means stddev sums table_percentages "
        "table_proportion_variances table_proportions table_proportions_moe table_std_dev "
        "table_std_err table_unweighted_bases table_weighted_bases total_share_sum "
        "unweighted_counts weighted_counts zscores").split()},
    "residual_test_stats": "M2",
    # vectors
    **{n: "R" for n in ("row_aliases row_codes row_labels rows_dimension_fills rows_scale_mean "
                        "rows_scale_mean_stddev rows_scale_mean_stderr rows_scale_median").split()},
    **{n: "C" for n in ("column_aliases column_codes column_labels columns_scale_mean "
                        "columns_scale_mean_stddev columns_scale_mean_stderr "
                        "columns_scale_median columns_squared_base "
                        "smoothed_columns_scale_mean").split()},
    **{n: "RM" for n in ("rows_base", "rows_margin", "rows_margin_proportion")},
    **{n: "CM" for n in ("columns_base", "columns_margin", "columns_margin_proportion")},
    "table_base": "T", "table_margin": "T",
    # scalars / invariants
    **{n: "S" for n in (
        "columns_dimension_description columns_dimension_name columns_dimension_type "
        "columns_scale_mean_margin columns_scale_median_margin cube_index description "
        "dimension_types has_scale_means name ndim population_fraction rows_dimension_alias "
        "rows_dimension_description rows_dimension_name rows_dimension_type "
        "rows_scale_mean_margin rows_scale_median_margin selected_category_labels tab_alias "
        "tab_label table_base_range table_margin_range table_name variable_name").split()},
    # positions
    "pairwise_indices": "PI", "pairwise_indices_alt": "PI", "pairwise_means_indices": "PI",
    "pairwise_means_indices_alt": "PI",
    "columns_scale_mean_pairwise_indices": "PC", "columns_scale_mean_pairwise_indices_alt": "PC",
    "summary_pairwise_indices": "PC",
    "inserted_row_idxs": "RI", "derived_row_idxs": "RI", "diff_row_idxs": "RI",
    "inserted_column_idxs": "CI", "derived_column_idxs": "CI", "diff_column_idxs": "CI",
    # exempt
    "shape": "X", "is_empty": "X", "payload_order": "X", "min_base_size_mask": "MASK",
    "pairwise_significance_tests": "LEGACY",
}

STRAND_KINDS = {
    **{n: "R" for n in (
        "counts means medians population_counts population_counts_moe "
        "population_proportion_stderrs population_proportions row_aliases row_codes row_labels "
        "rows_base rows_dimension_fills rows_margin share_sum smoothed_means stddev sums "
        "table_percentages table_proportion_moes table_proportion_stddevs "
        "table_proportion_stderrs table_proportions unweighted_bases unweighted_counts "
        "weighted_bases weighted_counts min_base_size_mask").split()},
    **{n: "S" for n in (
        "cube_index dimension_types has_scale_means name ndim population_fraction "
        "rows_dimension_alias rows_dimension_description rows_dimension_name "
        "rows_dimension_type scale_mean scale_median scale_std_dev scale_std_err scale_stddev "
        "scale_stderr selected_category_labels tab_alias tab_label table_base_range "
        "table_margin_range table_name title variable_name").split()},
    "inserted_row_idxs": "RI", "derived_row_idxs": "RI", "diff_row_idxs": "RI",
    "shape": "X", "is_empty": "X", "row_count": "X", "payload_order": "X",
}


def public_lazyproperties(cls):
    names = []
    for k in cls.__mro__:
        for n, v in k.__dict__.items():
            if not n.startswith("_") and isinstance(v, lazyproperty) and n not in names:
                names.append(n)
    return sorted(names)


class Raised:
    """An output that raised; compared by exception type."""

    def __init__(self, exc):
        self.type = type(exc).__name__
        self.msg = str(exc)[:200]

    def __repr__(self):
        return "Raised(%s: %s)" % (self.type, self.msg)


def snapshot(part, names=None, skip=()):
    """{name: value or Raised} for every public lazyproperty of the partition."""
    cls = _Slice if isinstance(part, _Slice) else _Strand
    out = {}
    for n in names or public_lazyproperties(cls):
        if n in skip:
            continue
        try:
            out[n] = getattr(part, n)
        except Exception as e:  # noqa - recorded, judged by the caller
            out[n] = Raised(e)
    return out


def kind_of(part, name):
    table = SLICE_KINDS if isinstance(part, _Slice) else STRAND_KINDS
    return table.get(name)
