"""Respondent-level reference: who is in a cell, who is eligible for a denominator.

Never touches the encoded tensor.  Everything is a plain Python loop over respondents
with two predicates per dimension:

    member(dim, r, key, ctx)   r belongs to element `key` of `dim`
    valid_on(dim, r, key, ctx) r has a non-missing answer on `dim` (for array-type
                               dimensions: on *that item*)

`ctx` carries the categorical-array item a CA categories dimension refers to in this
cell (the partner items element, or the table element).

A *vector spec* is ("el", key) for a base element or ("sub", name, addends, subtrahends)
for an insertion; sign() is +1 / 0 / -1.
"""
from datetime import datetime

from . import survey as S


class ODim:
    """Apparent dimension as the oracle sees it."""

    def __init__(self, var, kind):
        self.var = var
        self.kind = kind  # cat | mr | ca_items | ca_cats | numarr
        if kind in ("cat", "ca_cats"):
            cats = list(var["cats"])
            if var.get("use_order_key"):
                by_id = {c["id"]: c for c in cats}
                cats = [by_id[i] for i in var["order"] if i in by_id]
            self.all_cats = cats
            self.valid = [c for c in cats if not c["missing"]]
            self.keys = [c["id"] for c in self.valid]
            self.valid_ids = set(self.keys)
        else:
            self.keys = list(range(len(var["items"])))

    @property
    def n(self):
        return len(self.keys)

    @property
    def is_array(self):
        return self.kind in ("mr", "ca_items", "numarr")

    def labels(self):
        if self.kind in ("cat", "ca_cats"):
            fl = self.var.get("flavour", "cat")
            out = []
            for c in self.valid:
                if fl == "datetime":
                    res = S.datetime_resolution(c["evalue"])
                    out.append(datetime.strptime(c["evalue"], S.DATETIME_IN[res]).strftime(
                        S.DATETIME_OUT[res]))
                elif fl == "text":
                    out.append(str(c["evalue"]))
                elif fl == "numeric":
                    out.append("-".join(str(x) for x in c["evalue"]))
                else:
                    out.append(c["name"] or "")
            return out
        return [it["name"] for it in self.var["items"]]

    def element_ids(self):
        """ids as the library reports them (`row_codes`)."""
        if self.kind in ("cat", "ca_cats"):
            if self.var.get("flavour") == "datetime":
                return [c["evalue"] for c in self.valid]
            return [c["id"] for c in self.valid]
        return [it["alias"] for it in self.var["items"]]

    def numeric_values(self):
        if self.kind in ("cat", "ca_cats"):
            return [c.get("value") for c in self.valid]
        return [None] * self.n


def apparent_dims(survey, query):
    dims = []
    m = query.get("measure")
    if m and survey["vars"][m["var"]]["type"] == "numarr":
        dims.append(ODim(survey["vars"][m["var"]], "numarr"))
    for d in query["dims"]:
        var = survey["vars"][d["var"]]
        if var["type"] == "cat":
            dims.append(ODim(var, "cat"))
        elif var["type"] == "mr":
            dims.append(ODim(var, "mr"))
        elif var["type"] == "ca":
            dims.append(ODim(var, "ca_items" if d.get("part") == "items" else "ca_cats"))
    return dims


class Oracle:
    """Reference for one partition (slice / strand) of a query."""

    def __init__(self, survey, query, table_key=None):
        self.survey = survey
        self.query = query
        self.dims = apparent_dims(survey, query)
        self.n = survey["n"]
        nd = len(self.dims)
        self.table = self.dims[0] if nd == 3 else None
        self.table_key = table_key
        self.rows = self.dims[-2] if nd >= 2 else (self.dims[0] if nd == 1 else None)
        self.cols = self.dims[-1] if nd >= 2 else None
        m = query.get("measure")
        self.mvar = survey["vars"][m["var"]] if m else None
        self.needs_valid_x = bool(
            m and self.mvar["type"] == "num" and m.get("valid_counts", True)
        )
        self.W = survey["weights"] if query.get("weighted") else None

    # ------------------------------------------------------------------ predicates
    def w(self, r, weighted=True):
        return (1 if self.W is None else self.W[r]) if weighted else 1

    def eligible(self, r):
        """Respondent takes part in this partition at all."""
        t = self.table
        if t is not None:
            if t.kind == "cat":
                if t.var["answers"][r] != self.table_key:
                    return False
            elif t.kind == "mr":
                if t.var["answers"][r][self.table_key] != 1:
                    return False
            elif t.kind == "numarr":
                # numeric array as table dimension: slice k carries item k's valid counts
                if t.var["values"][r][self.table_key] is None:
                    return False
            # ca_items table: a context, not a restriction
        if self.needs_valid_x and self.mvar["values"][r] is None:
            return False
        return True

    def ctx(self, rkey=None, ckey=None):
        """{ca alias: item index} for CA categories dimensions in this cell."""
        c = {}
        if self.table is not None and self.table.kind == "ca_items":
            c[self.table.var["alias"]] = self.table_key
        if self.rows is not None and self.rows.kind == "ca_items" and rkey is not None:
            c[self.rows.var["alias"]] = rkey
        if self.cols is not None and self.cols.kind == "ca_items" and ckey is not None:
            c[self.cols.var["alias"]] = ckey
        return c

    @staticmethod
    def member(dim, r, key, ctx):
        v = dim.var
        if dim.kind == "cat":
            return v["answers"][r] == key
        if dim.kind == "ca_cats":
            return v["answers"][r][ctx[v["alias"]]] == key
        if dim.kind == "mr":
            return v["answers"][r][key] == 1
        if dim.kind == "ca_items":
            return True
        if dim.kind == "numarr":
            return v["values"][r][key] is not None
        raise ValueError(dim.kind)

    @staticmethod
    def valid_on(dim, r, key, ctx):
        v = dim.var
        if dim.kind == "cat":
            return v["answers"][r] in dim.valid_ids
        if dim.kind == "ca_cats":
            return v["answers"][r][ctx[v["alias"]]] in dim.valid_ids
        if dim.kind == "mr":
            return v["answers"][r][key] != -1
        if dim.kind == "ca_items":
            ids = set(S.valid_cat_ids(v))
            return v["answers"][r][key] in ids
        if dim.kind == "numarr":
            return v["values"][r][key] is not None
        raise ValueError(dim.kind)

    # ------------------------------------------------------------------ vector specs
    @staticmethod
    def spec_key(spec):
        """Element key carried by a spec for array context (None for insertions)."""
        return spec[1] if spec[0] == "el" else None

    def sign(self, dim, r, spec, ctx):
        if spec[0] == "el":
            return 1 if self.member(dim, r, spec[1], ctx) else 0
        _, _name, adds, subs = spec
        pos = any(self.member(dim, r, k, ctx) for k in adds)
        neg = any(self.member(dim, r, k, ctx) for k in subs)
        return (1 if pos else 0) - (1 if neg else 0)

    def in_union(self, dim, r, spec, ctx):
        """Member of the (positive part of the) vector: eligibility for its own base."""
        if spec[0] == "el":
            return self.member(dim, r, spec[1], ctx)
        return any(self.member(dim, r, k, ctx) for k in spec[2])

    @staticmethod
    def is_diff(spec):
        return spec[0] == "sub" and len(spec[3]) > 0

    # ------------------------------------------------------------------ 2-D quantities
    def respondents(self):
        return [r for r in range(self.n) if self.eligible(r)]

    def count(self, rspec, cspec, weighted=True):
        ctx = self.ctx(self.spec_key(rspec), self.spec_key(cspec))
        tot = 0
        for r in self.respondents():
            s = self.sign(self.rows, r, rspec, ctx) * self.sign(self.cols, r, cspec, ctx)
            if s:
                tot += s * self.w(r, weighted)
        return tot

    def cell_members(self, rspec, cspec):
        ctx = self.ctx(self.spec_key(rspec), self.spec_key(cspec))
        return [
            r for r in self.respondents()
            if self.in_union(self.rows, r, rspec, ctx) and self.in_union(self.cols, r, cspec, ctx)
        ]

    def row_base(self, rspec, cspec, weighted=True):
        """Members of the row vector with a valid answer on the columns dimension."""
        ctx = self.ctx(self.spec_key(rspec), self.spec_key(cspec))
        ck = self.spec_key(cspec)
        tot = 0
        for r in self.respondents():
            if self.in_union(self.rows, r, rspec, ctx) and self._valid_for(self.cols, r, ck, ctx):
                tot += self.w(r, weighted)
        return tot

    def col_base(self, rspec, cspec, weighted=True):
        ctx = self.ctx(self.spec_key(rspec), self.spec_key(cspec))
        rk = self.spec_key(rspec)
        tot = 0
        for r in self.respondents():
            if self.in_union(self.cols, r, cspec, ctx) and self._valid_for(self.rows, r, rk, ctx):
                tot += self.w(r, weighted)
        return tot

    def table_base(self, rspec, cspec, weighted=True):
        ctx = self.ctx(self.spec_key(rspec), self.spec_key(cspec))
        rk, ck = self.spec_key(rspec), self.spec_key(cspec)
        tot = 0
        for r in self.respondents():
            if self._valid_for(self.rows, r, rk, ctx) and self._valid_for(self.cols, r, ck, ctx):
                tot += self.w(r, weighted)
        return tot

    def _valid_for(self, dim, r, key, ctx):
        if dim.is_array and key is None:
            raise ValueError("array dimension needs an element")
        return self.valid_on(dim, r, key, ctx)

    # ------------------------------------------------------------------ 1-D quantities
    def count1(self, rspec, weighted=True):
        ctx = self.ctx(self.spec_key(rspec), None)
        tot = 0
        for r in self.respondents():
            s = self.sign(self.rows, r, rspec, ctx)
            if s:
                tot += s * self.w(r, weighted)
        return tot

    def base1(self, rspec, weighted=True):
        """Strand base: respondents valid on the (item of the) rows dimension."""
        key = self.spec_key(rspec)
        ctx = self.ctx(key, None)
        tot = 0
        for r in self.respondents():
            if self.valid_on(self.rows, r, key, ctx):
                tot += self.w(r, weighted)
        return tot

    def members1(self, rspec):
        ctx = self.ctx(self.spec_key(rspec), None)
        return [r for r in self.respondents() if self.in_union(self.rows, r, rspec, ctx)]

    # ------------------------------------------------------------------ numeric measure
    def xvalue(self, r, rspec=None):
        """Numeric-measure value of respondent r relevant for a cell of row `rspec`."""
        if self.mvar["type"] == "numarr":
            if self.table is not None and self.table.kind == "numarr":
                return self.mvar["values"][r][self.table_key]
            return self.mvar["values"][r][rspec[1]]
        return self.mvar["values"][r]


def element_specs(dim):
    return [("el", k) for k in dim.keys]


def insertion_spec(dim, ins):
    """("sub", name, addends, subtrahends) with ids restricted to valid, existing ones."""
    kw = ins.get("kwargs") or {}
    pos = kw.get("positive") or ins.get("args") or []
    neg = kw.get("negative") or []
    valid = set(dim.keys)
    adds = [k for k in dict.fromkeys(pos) if k in valid]
    subs = [k for k in dict.fromkeys(neg) if k in valid]
    return ("sub", ins["name"], adds, subs)


# ---------------------------------------------------------------------- visibility (C09)
def _empty_vector(orc, own, opp, key, own_is_rows):
    """True iff no respondent is eligible in the own-direction *unweighted* base of any
    cell of the vector.  For an MR vector the base counts selected and not-selected
    answers, except against another MR dimension where `selected` is required."""
    spec = ("el", key)
    for ok in opp.keys:
        ospec = ("el", ok)
        rs, cs = (spec, ospec) if own_is_rows else (ospec, spec)
        if own.kind == "mr" and opp.kind != "mr":
            b = orc.table_base(rs, cs, False)
        elif own_is_rows:
            b = orc.row_base(rs, cs, False)
        else:
            b = orc.col_base(rs, cs, False)
        if b > 0:
            return False
    return True


def empty_rows(orc):
    return [i for i, k in enumerate(orc.rows.keys)
            if _empty_vector(orc, orc.rows, orc.cols, k, True)]


def empty_cols(orc):
    return [j for j, k in enumerate(orc.cols.keys)
            if _empty_vector(orc, orc.cols, orc.rows, k, False)]


def empty_strand_rows(orc):
    out = []
    for i, k in enumerate(orc.rows.keys):
        spec = ("el", k)
        if orc.rows.kind == "mr":
            b = orc.base1(spec, False)
        else:
            b = orc.count1(spec, False)
        if b == 0:
            out.append(i)
    return out
