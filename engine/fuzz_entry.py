"""Coverage-guided fuzz tier (atheris / libFuzzer) for a Hypothesis sub-check.

    python -m engine.fuzz_entry <PROP> <SUBCHECK> <RUNS> <SEED> <OUT.json>

libFuzzer mutates a byte string; Hypothesis' `fuzz_one_input` decodes it with the SAME
strategy the random tier uses, and the same judge decides.  Coverage feedback comes from
the branchy pure-Python modules (`cr.cube.collator`, `cr.cube.dimension`,
`cr.cube.matrix.assembler`).  A violation is written to OUT.json (replayable case) and the
process exits 77; exit 0 = budget exhausted without violation.
"""
import importlib
import json
import os
import sys


def main():
    prop, subname, runs, seed, out = sys.argv[1:6]
    from engine import env

    env.pin()
    import atheris

    with atheris.instrument_imports(include=["cr.cube.collator", "cr.cube.dimension",
                                             "cr.cube.matrix.assembler",
                                             "cr.cube.stripe.assembler"]):
        import cr.cube.collator  # noqa
        import cr.cube.dimension  # noqa
        import cr.cube.matrix.assembler  # noqa
        import cr.cube.stripe.assembler  # noqa
    import warnings

    warnings.simplefilter("ignore")
    from hypothesis import HealthCheck, given, settings

    from engine.cmp import jsonable
    from engine.runner import Recorder, Violation, classify_exception, load_known

    mod = importlib.import_module("props.%s" % prop.lower())
    sc = [s for s in mod.SUBCHECKS if s.name == subname][0]
    rec = Recorder(prop, sc.name, load_known(prop))
    stats = {"execs": 0, "valid": 0}

    @settings(database=None, deadline=None, suppress_health_check=list(HealthCheck))
    @given(sc.strategy)
    def test(case):
        stats["valid"] += 1
        rec.begin(case)
        try:
            sc.judge(case, rec)
        except Violation as v:
            _fail(case, v.msg, v.sig)
        except Exception as e:  # noqa
            v = classify_exception(e)
            if v is None:
                raise
            full = "%s/%s" % (sc.name, v.sig)
            if full in rec.known:
                return
            _fail(case, v.msg, full)
        rec.end()

    def _fail(case, msg, sig):
        with open(out, "w") as f:
            json.dump({"subcheck": sc.name, "case": jsonable(case), "message": msg,
                       "signature": sig, "detail": None, "stats": stats}, f)
        sys.stdout.flush()
        os._exit(77)

    fuzz_one = test.hypothesis.fuzz_one_input

    def one_input(data):
        stats["execs"] += 1
        fuzz_one(data)
        if stats["execs"] % 250 == 0:
            stats["nontrivial"] = len(rec.nontrivial_hashes)
            stats["samples"] = rec.samples[:1]
            with open(out + ".stats", "w") as f:
                json.dump(stats, f)

    corpus = out + ".corpus"
    os.makedirs(corpus, exist_ok=True)
    atheris.Setup([sys.argv[0], "-runs=%s" % runs, "-seed=%s" % seed, "-max_len=4096",
                   "-print_final_stats=0", "-verbosity=0", corpus], one_input)
    try:
        atheris.Fuzz()
    finally:
        pass


if __name__ == "__main__":
    # atheris calls os._exit at the end of Fuzz(); write the stats file beforehand via atexit
    # is not possible, so the parent only learns execution counts from libFuzzer's stderr.
    main()
