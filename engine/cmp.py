"""NaN-aware tolerant comparison.  |a-b| <= ATOL + RTOL*|b|, NaN == NaN, inf sign-exact."""
import math

import numpy as np

RTOL = 1e-9
ATOL = 1e-9


def is_nan(x):
    try:
        return x is None or (isinstance(x, float) and math.isnan(x)) or bool(np.isnan(x))
    except (TypeError, ValueError):
        return False


def close(a, b, rtol=RTOL, atol=ATOL):
    """Scalars; None on the oracle side means NaN."""
    an, bn = is_nan(a), is_nan(b)
    if an or bn:
        return an and bn
    a = float(a)
    b = float(b)
    if math.isinf(a) or math.isinf(b):
        return a == b
    return abs(a - b) <= atol + rtol * abs(b)


def arrays_close(a, b, rtol=RTOL, atol=ATOL):
    a = np.asarray(a, dtype=float)
    b = np.asarray(b, dtype=float)
    if a.shape != b.shape:
        return False
    return first_diff(a, b, rtol, atol) is None


def first_diff(a, b, rtol=RTOL, atol=ATOL):
    """Index tuple of the first differing entry of two same-shape arrays, or None."""
    a = np.asarray(a, dtype=float)
    b = np.asarray(b, dtype=float)
    if a.shape != b.shape:
        return ("shape", a.shape, b.shape)
    for idx in np.ndindex(a.shape):
        if not close(a[idx], b[idx], rtol, atol):
            return idx
    return None


def jsonable(x):
    """Convert numpy things to something json.dumps accepts (NaN -> "nan")."""
    if isinstance(x, np.ndarray):
        return jsonable(x.tolist())
    if isinstance(x, (list, tuple)):
        return [jsonable(v) for v in x]
    if isinstance(x, dict):
        return {str(k): jsonable(v) for k, v in x.items()}
    if isinstance(x, (np.integer,)):
        return int(x)
    if isinstance(x, (np.floating, float)):
        x = float(x)
        if math.isnan(x):
            return "nan"
        if math.isinf(x):
            return "inf" if x > 0 else "-inf"
        return x
    if isinstance(x, (np.bool_,)):
        return bool(x)
    if isinstance(x, (str, int, bool)) or x is None:
        return x
    return repr(x)


def is_root(name):
    """Outputs that are square roots of a variance (std-dev / std-err / MoE families)."""
    return any(t in name for t in ("std_dev", "std_err", "_moe", "stddev", "stderr", "_moes",
                                   "population_counts_moe"))


def roots_close(a, b, scale=1.0):
    """Element-wise `close`, except that tiny values are compared in the variance domain:
    with weights that are not exactly representable a variance of 0 comes out as +-1e-16
    depending on the order of summation, and its root as 0 or 1e-8."""
    import numpy as np
    try:
        aa, bb = np.asarray(a, dtype=float), np.asarray(b, dtype=float)
    except (TypeError, ValueError):
        return False
    if aa.shape != bb.shape:
        return False
    for x, y in zip(aa.ravel().tolist(), bb.ravel().tolist()):
        if close(x, y):
            continue
        if x != x or y != y or x < 0 or y < 0:
            return False
        # `scale`: what the root was multiplied by (population x 1.96 for population MoEs)
        xs, ys = x / scale, y / scale
        if abs(xs * xs - ys * ys) > 1e-12:
            return False
    return True
