"""Scenario strategies: (survey, query) pairs for every supported dimension pairing.

A shape is a tuple of tokens, in response order:
    cat | cat_date | datetime | text | numeric | logical    categorical-like
    mr                                                       multiple response (2 dims)
    cai / cac                                                items / categories of one CA
    na                                                       numeric array (first only)
"""
from hypothesis import strategies as st

from . import env
from . import survey as S

CATLIKE = ("cat", "cat_date", "datetime", "text", "numeric", "logical")

SHAPES_2D = [
    ("cat", "cat"), ("cat", "cat"), ("cat", "mr"), ("mr", "cat"), ("mr", "mr"),
    ("cai", "cac"), ("cac", "cai"),
    ("cat_date", "cat"), ("cat", "cat_date"), ("datetime", "cat"), ("cat", "text"),
    ("numeric", "cat"), ("cat", "logical"), ("mr", "cat_date"), ("cat_date", "mr"),
]
SHAPES_NA = [("na", "cat"), ("na", "mr"), ("na", "cat_date"), ("na", "datetime")]
# numeric array grouped by two variables: the array is the table dimension
SHAPES_NA3 = [("na", "cat", "cat"), ("na", "cat", "cat_date"), ("na", "text", "cat"),
              ("na", "cat", "mr"), ("na", "mr", "cat"), ("na", "mr", "mr")]
SHAPES_1D = [("cat",), ("mr",), ("cat_date",), ("datetime",), ("text",), ("numeric",),
             ("logical",), ("na",)]
# weights incl. values that are not exactly representable: for checks whose oracle works from
# respondents with a stated tolerance (relational checks compare two library runs that add the
# same numbers in a different order and keep exactly representable weights)
WEIGHTS_INEXACT = ("none", "int", "dyadic", "zeroheavy", "tenths")

SHAPES_3D = [
    ("cat", "cat", "cat"), ("cat", "cat", "mr"), ("cat", "mr", "cat"), ("cat", "mr", "mr"),
    ("mr", "cat", "cat"), ("mr", "cat", "mr"), ("mr", "mr", "cat"), ("mr", "mr", "mr"),
    ("cai", "cac", "cat"), ("cai", "cac", "mr"),
    # table dimensions of the other categorical kinds (dated, enum-backed, logical)
    ("cat_date", "cat", "cat"), ("text", "cat", "mr"), ("datetime", "mr", "cat"),
    ("numeric", "cat", "cat"), ("logical", "cat", "cat"),
    # a categorical array inside a table variable (items x categories, or transposed)
    ("cat", "cai", "cac"), ("mr", "cai", "cac"), ("cat", "cac", "cai"), ("cat_date", "cai", "cac"),
]


@st.composite
def scenario_st(draw, shapes, max_n=24,
                weight_kinds=("none", "int", "dyadic", "zeroheavy"),
                measure="maybe", numeric="some", max_valid=4, max_items=3, stats=None,
                allow_order_key=True, min_valid=1, skew=True, min_n=0):
    if env.tier() == "thorough":
        # deeper bounds in the thorough tier (reported in the evidence file)
        max_n, max_valid, max_items = max(max_n, 48), max_valid + 2, max_items + 1
    n = draw(S.n_st(max_n, min_n))
    if env.debug_shapes():
        # exploration aid only (never set by a registered command): restrict to given shapes
        shapes = env.debug_shapes()
    shape = draw(st.sampled_from(shapes))
    weights = draw(S.weights_st(n, weight_kinds))
    svars = {}
    dims = []
    ca_alias = None
    for i, tok in enumerate(shape):
        alias = "v%d" % i
        if tok in CATLIKE:
            svars[alias] = draw(S.cat_var_st(alias, n, flavour=tok, min_valid=min_valid,
                                             max_valid=max_valid, numeric=numeric,
                                             allow_order_key=allow_order_key, skew=skew))
            dims.append({"var": alias})
        elif tok == "mr":
            svars[alias] = draw(S.mr_var_st(alias, n, max_items=max_items))
            dims.append({"var": alias})
        elif tok in ("cai", "cac"):
            if ca_alias is None:
                ca_alias = "ca"
                svars[ca_alias] = draw(S.ca_var_st(ca_alias, n, max_items=max_items,
                                                   min_valid=min_valid,
                                                   max_valid=max_valid, numeric=numeric,
                                                   skew=skew))
            dims.append({"var": ca_alias, "part": "items" if tok == "cai" else "cats"})
        elif tok == "na":
            svars["na"] = draw(S.numarr_var_st("na", n, max_items=max_items))
        else:
            raise ValueError(tok)
    survey = {"n": n, "weights": weights, "vars": svars}
    query = {"dims": dims,
             "weighted": weights is not None and draw(st.integers(0, 3)) > 0}
    if "na" in shape:
        kinds = stats or draw(st.lists(st.sampled_from(["mean", "sum", "stddev", "median"]),
                                       min_size=1, max_size=3, unique=True))
        query["measure"] = {"var": "na", "stats": list(kinds), "valid_counts": True}
    elif measure == "always" or len(shape) == 0 or (measure == "maybe" and draw(st.integers(0, 3)) == 0):
        svars["x"] = draw(S.num_var_st("x", n))
        kinds = stats or draw(st.lists(st.sampled_from(["mean", "sum", "stddev", "median"]),
                                       min_size=1, max_size=3, unique=True))
        query["measure"] = {"var": "x", "stats": list(kinds),
                            "valid_counts": draw(st.booleans())}
    # outputs to read BEFORE the ones under test (access-order sensitivity)
    mode = draw(st.integers(0, 7))
    if mode == 0:
        warm = [-draw(st.integers(1, 199))]          # all other outputs, drawn rotation
    elif mode <= 3:
        warm = draw(st.lists(st.integers(0, 199), max_size=8))
    else:
        warm = []
    return {"survey": survey, "query": query, "shape": list(shape), "warmup": warm}
