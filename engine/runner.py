"""Check runner: shards Hypothesis searches over processes, merges counters, writes
evidence and replay files, maps outcomes to exit codes.

    exit 0  property held on everything explored (KNOWN-FINDING lines allowed)
    exit 1  VIOLATION property=<id> replay=<path>
    exit 2  harness problem / vacuous generator: inconclusive, never a violation
"""
import argparse
import hashlib
import importlib
import json
import math
import multiprocessing
import os
import sys
import time
import traceback

from . import env
from .cmp import jsonable
from .env import HarnessError

NSHARDS = int(os.environ.get("VERIF_SHARDS", "16"))
KNOWN_FILE = os.path.join(env.VERIF, "known_findings.json")
# where evidence/ and replays/ are written (self-tests on mutated copies redirect this)
OUT = os.environ.get("VERIF_OUT", env.VERIF)


class Violation(Exception):
    def __init__(self, msg, sig=None, detail=None):
        super().__init__(msg)
        self.msg = msg
        self.sig = sig or "generic"
        self.detail = detail


class SubCheck:
    def __init__(self, name, strategy, judge, quick=1600, thorough=16000, kind="hypothesis",
                 enumerate_fn=None, max_shrink_s=120, custom_fn=None):
        self.name = name
        self.strategy = strategy
        self.judge = judge
        self.quick = quick
        self.thorough = thorough
        self.kind = kind  # hypothesis | enumerate | stateful
        self.enumerate_fn = enumerate_fn
        self.custom_fn = custom_fn


class Recorder:
    """Per-(subcheck, shard) counters; judges report through it."""

    def __init__(self, prop, subcheck, known):
        self.prop = prop
        self.subcheck = subcheck
        self.known = known  # {sig: description}
        self.evaluations = 0
        self.nontrivial_hashes = set()
        self.classes = {}
        self.samples = []
        self.known_hits = {}
        self.comparisons = 0
        self.frozen = False
        self._case = None
        self._nontrivial = False

    def begin(self, case):
        self._case = case
        self._nontrivial = False
        self._labels = []

    def event(self, label):
        if not self.frozen:
            self._labels.append(label)

    def nontrivial(self, flag=True):
        if flag:
            self._nontrivial = True

    def compared(self, n=1):
        if not self.frozen:
            self.comparisons += n

    def violation(self, msg, sig=None, detail=None):
        """Raise unless `sig` is a listed known finding (then count and continue)."""
        full = "%s/%s" % (self.subcheck, sig or "generic")
        if full in self.known:
            if not self.frozen:
                self.known_hits[full] = self.known_hits.get(full, 0) + 1
            return
        raise Violation(msg, full, detail)

    def end(self):
        if self.frozen:
            return
        self.evaluations += 1
        for lb in set(self._labels):
            self.classes[lb] = self.classes.get(lb, 0) + 1
        if self._nontrivial:
            h = hashlib.sha1(
                json.dumps(jsonable(self._case), sort_keys=True).encode()
            ).hexdigest()[:16]
            if h not in self.nontrivial_hashes:
                self.nontrivial_hashes.add(h)
                if len(self.samples) < 2:
                    self.samples.append(jsonable(self._case))

    def export(self):
        return {
            "evaluations": self.evaluations,
            "nontrivial": sorted(self.nontrivial_hashes),
            "classes": self.classes,
            "samples": self.samples,
            "known_hits": self.known_hits,
            "comparisons": self.comparisons,
        }


def load_known(prop):
    """{'<subcheck>/<sig>': description} for findings recorded (not fixed) for `prop`."""
    if not os.path.exists(KNOWN_FILE):
        return {}
    with open(KNOWN_FILE) as f:
        data = json.load(f)
    out = {}
    for k in data.get("known", []):
        if k.get("property") == prop:
            out[k["signature"]] = k.get("what", "")
    return out


def _lib_frame(tb):
    """Innermost traceback frame that lives in the library under test, if any."""
    src = os.path.realpath(env.SRC)
    hit = None
    for fs in traceback.extract_tb(tb):
        if os.path.realpath(fs.filename).startswith(src):
            hit = fs
    return hit


def classify_exception(e):
    """Library exception on a generated (in-domain) input -> Violation; else harness."""
    fs = _lib_frame(e.__traceback__)
    if fs is None:
        return None
    rel = os.path.relpath(os.path.realpath(fs.filename), os.path.realpath(env.SRC))
    return Violation(
        "library raised %s: %s (at %s:%s in %s)" % (type(e).__name__, e, rel, fs.lineno, fs.name),
        "exception:%s:%s" % (type(e).__name__, fs.name),
        {"traceback": traceback.format_exception(type(e), e, e.__traceback__)[-6:]},
    )


def _run_hypothesis(sc, rec, n_examples, hseed):
    import hypothesis
    from hypothesis import HealthCheck, Phase, given, settings

    state = {"fail": None}

    def body(case):
        rec.begin(case)
        try:
            sc.judge(case, rec)
        except Violation as v:
            state["fail"] = (case, v)
            rec.frozen = True
            raise
        except HarnessError:
            raise
        except Exception as e:  # noqa
            v = classify_exception(e)
            if v is None:
                raise HarnessError(
                    "harness exception in %s: %s\n%s"
                    % (sc.name, e, "".join(traceback.format_exception(type(e), e, e.__traceback__)))
                )
            full = "%s/%s" % (sc.name, v.sig)
            if full in rec.known:
                if not rec.frozen:
                    rec.known_hits[full] = rec.known_hits.get(full, 0) + 1
                rec.end()
                return
            v.sig = full
            state["fail"] = (case, v)
            rec.frozen = True
            raise v
        rec.end()

    test = given(sc.strategy)(body)
    test = settings(
        max_examples=n_examples,
        database=None,
        deadline=None,
        derandomize=False,
        report_multiple_bugs=False,
        print_blob=False,
        phases=[Phase.generate, Phase.shrink],
        suppress_health_check=list(HealthCheck),
    )(test)
    test = hypothesis.seed(hseed)(test)
    try:
        test()
    except Violation:
        pass
    except HarnessError:
        raise
    except hypothesis.errors.HypothesisException as e:
        # The judges are deterministic functions of the case (no RNG, clock or shared
        # state of their own).  If an example that violated the property does not replay
        # identically, the library's result depends on evaluation history; the violation
        # that was observed against the real code is reported as such.
        if state["fail"] is not None:
            case, v = state["fail"]
            v.msg += " [not reproducible on immediate re-evaluation: %s]" % type(e).__name__
            return state["fail"]
        raise HarnessError("hypothesis error in %s: %s" % (sc.name, e))
    return state["fail"]


def _run_enumerate(sc, rec, shard, nshards, tier):
    fail = None
    for case in sc.enumerate_fn(shard, nshards, tier):
        rec.begin(case)
        try:
            sc.judge(case, rec)
        except Violation as v:
            return (case, v)
        except HarnessError:
            raise
        except Exception as e:  # noqa
            v = classify_exception(e)
            if v is None:
                raise HarnessError("harness exception in %s: %s\n%s" % (
                    sc.name, e, "".join(traceback.format_exception(type(e), e, e.__traceback__))))
            full = "%s/%s" % (sc.name, v.sig)
            if full in rec.known:
                rec.known_hits[full] = rec.known_hits.get(full, 0) + 1
                rec.end()
                continue
            v.sig = full
            return (case, v)
        rec.end()
    return fail


def worker(args):
    prop, shard, nshards, tier, seed, only = args
    try:
        env.pin()
        import warnings

        warnings.simplefilter("ignore")
        mod = importlib.import_module("props.%s" % prop.lower())
        known = load_known(prop)
        out = {"shard": shard, "sub": {}, "fail": None, "error": None}
        for si, sc in enumerate(mod.SUBCHECKS):
            if only and sc.name not in only:
                continue
            rec = Recorder(prop, sc.name, known)
            t0 = time.time()
            if sc.kind == "enumerate":
                fail = _run_enumerate(sc, rec, shard, nshards, tier)
            elif sc.kind == "custom":
                budget = sc.quick if tier == "quick" else sc.thorough
                n_examples = max(1, int(math.ceil(budget / float(nshards))))
                hseed = (seed * 1000003 + shard * 7919 + si * 104729) % (2 ** 62)
                fail = sc.custom_fn(sc, rec, n_examples, hseed, tier, known)
                if fail is not None and not isinstance(fail[1], Violation):
                    fail = (fail[0], Violation(str(fail[1]), "%s/generic" % sc.name))
            else:
                budget = sc.quick if tier == "quick" else sc.thorough
                n_examples = max(1, int(math.ceil(budget / float(nshards))))
                hseed = (seed * 1000003 + shard * 7919 + si * 104729) % (2 ** 62)
                fail = _run_hypothesis(sc, rec, n_examples, hseed)
            exp = rec.export()
            exp["wall_s"] = round(time.time() - t0, 2)
            out["sub"][sc.name] = exp
            if fail is not None and out["fail"] is None:
                case, v = fail
                out["fail"] = {"subcheck": getattr(v, "subcheck", sc.name),
                               "case": jsonable(case), "message": v.msg,
                               "signature": v.sig, "detail": jsonable(v.detail)}
        return out
    except HarnessError as e:
        return {"shard": shard, "sub": {}, "fail": None, "error": str(e)}
    except Exception as e:  # noqa
        return {"shard": shard, "sub": {}, "fail": None,
                "error": "".join(traceback.format_exception(type(e), e, e.__traceback__))}


def fuzz_subcheck(name, target, quick_runs=0, thorough_runs=20000):
    """A sub-check that drives `target`'s strategy + judge with atheris (coverage-guided).

    Runs one libFuzzer process per shard (own seed, own empty corpus) in a subprocess;
    skipped when atheris is not importable or the tier's budget is 0."""
    import subprocess
    import tempfile

    def custom(sc, rec, n_examples, hseed, tier, known):
        runs = quick_runs if tier == "quick" else thorough_runs
        if not runs:
            return None
        try:
            import atheris  # noqa
        except ImportError:
            rec.begin({"note": "atheris not available"})
            rec.event("atheris unavailable - fuzz tier skipped")
            return None
        tmp = tempfile.mkdtemp(prefix="verif-fuzz.", dir="/var/tmp")
        out = os.path.join(tmp, "result.json")
        try:
            envv = dict(os.environ)
            envv["PYTHONPATH"] = os.pathsep.join([env.VERIF, env.DEPS, envv.get("PYTHONPATH", "")])
            p = subprocess.run(
                [sys.executable, "-m", "engine.fuzz_entry", rec.prop, target, str(runs),
                 str(hseed % (2 ** 31 - 1) + 1), out],
                cwd=env.VERIF, env=envv, stdout=subprocess.PIPE, stderr=subprocess.STDOUT,
                text=True, timeout=3600)
            stats = {}
            if os.path.exists(out + ".stats"):
                stats = json.load(open(out + ".stats"))
            rec.evaluations += int(stats.get("execs", 0))
            rec.comparisons += int(stats.get("valid", 0))
            for i in range(int(stats.get("nontrivial", 0))):
                rec.nontrivial_hashes.add("fuzz-%d-%d" % (hseed, i))
            rec.samples.extend(stats.get("samples", [])[:1])
            rec.classes["fuzz execs"] = rec.classes.get("fuzz execs", 0) + int(stats.get("execs", 0))
            if p.returncode == 77 and os.path.exists(out):
                fail = json.load(open(out))
                v = Violation(fail["message"] + " [found by atheris]",
                              "%s/%s" % (target, fail["signature"].split("/", 1)[-1]))
                v.subcheck = target  # replay through the sub-check whose judge was used
                return (fail["case"], v)
            if p.returncode not in (0, 77):
                raise HarnessError("fuzz process failed (%d): %s" % (p.returncode, p.stdout[-1500:]))
            return None
        finally:
            import shutil
            shutil.rmtree(tmp, ignore_errors=True)

    return SubCheck(name, None, None, quick=1, thorough=1, kind="custom", custom_fn=custom)


def write_replay(prop, fail):
    os.makedirs(os.path.join(OUT, "replays"), exist_ok=True)
    blob = json.dumps(fail, sort_keys=True, indent=1)
    h = hashlib.sha1(blob.encode()).hexdigest()[:10]
    rel = os.path.join("replays", "%s-%s-%s.json" % (prop, fail["subcheck"], h))
    with open(os.path.join(OUT, rel), "w") as f:
        f.write(blob)
    return rel if OUT == env.VERIF else os.path.join(OUT, rel)


def replay(prop, path):
    env.pin()
    import warnings

    warnings.simplefilter("ignore")
    mod = importlib.import_module("props.%s" % prop.lower())
    with open(path) as f:
        fail = json.load(f)
    sc = [s for s in mod.SUBCHECKS if s.name == fail["subcheck"]][0]
    # listed known findings stay suppressed in replay mode too (a replay of a *fixed*
    # defect must not alarm because the same case also shows a recorded, unfixed one)
    rec = Recorder(prop, sc.name, load_known(prop))
    rec.begin(fail["case"])
    try:
        case = mod.revive(fail["case"]) if hasattr(mod, "revive") else fail["case"]
        sc.judge(case, rec)
    except Violation as v:
        print("reproduced: %s" % v.msg)
        print("VIOLATION property=%s replay=%s" % (prop, path))
        return 1
    except Exception as e:  # noqa
        v = classify_exception(e)
        if v is None:
            raise
        print("reproduced: %s" % v.msg)
        print("VIOLATION property=%s replay=%s" % (prop, path))
        return 1
    print("replay %s: property holds on this case" % path)
    return 0


def regress(prop):
    """Replays of formerly failing cases (fixed defects) run first in every tier."""
    d = os.path.join(env.VERIF, "replays", "regress")
    rc = 0
    n = 0
    if os.path.isdir(d):
        for fn in sorted(os.listdir(d)):
            if fn.startswith(prop + "-") and fn.endswith(".json"):
                n += 1
                rc = max(rc, replay(prop, os.path.join("replays", "regress", fn)))
    return rc, n


def main(argv=None):
    ap = argparse.ArgumentParser()
    ap.add_argument("prop")
    ap.add_argument("--tier", default=None)
    ap.add_argument("--replay", default=None)
    ap.add_argument("--only", default=None, help="comma separated sub-check names")
    ap.add_argument("--shards", type=int, default=NSHARDS)
    a = ap.parse_args(argv)
    prop = a.prop.upper()
    tier = a.tier or env.tier()
    seed = env.seed()
    os.chdir(env.VERIF)
    try:
        loc = env.pin()
    except HarnessError as e:
        print("HARNESS-ERROR %s" % e)
        return 2
    if a.replay:
        return replay(prop, a.replay)

    t0 = time.time()
    mod = importlib.import_module("props.%s" % prop.lower())
    rc_reg, n_reg = regress(prop)
    if rc_reg:
        return 1
    only = set(a.only.split(",")) if a.only else None
    nsh = a.shards
    ctx = multiprocessing.get_context("fork")
    with ctx.Pool(min(nsh, 16)) as pool:
        results = pool.map(worker, [(prop, s, nsh, tier, seed, only) for s in range(nsh)],
                           chunksize=1)

    errors = [r["error"] for r in results if r["error"]]
    fails = [r["fail"] for r in results if r["fail"]]
    sub = {}
    for r in results:
        for name, e in r["sub"].items():
            m = sub.setdefault(name, {"evaluations": 0, "nontrivial": set(), "classes": {},
                                      "samples": [], "known_hits": {}, "comparisons": 0,
                                      "wall_s": 0.0})
            m["evaluations"] += e["evaluations"]
            m["nontrivial"].update(e["nontrivial"])
            m["comparisons"] += e["comparisons"]
            m["wall_s"] = max(m["wall_s"], e["wall_s"])
            for k, v in e["classes"].items():
                m["classes"][k] = m["classes"].get(k, 0) + v
            for k, v in e["known_hits"].items():
                m["known_hits"][k] = m["known_hits"].get(k, 0) + v
            if len(m["samples"]) < 2:
                m["samples"].extend(e["samples"][: 2 - len(m["samples"])])

    evaluations = sum(m["evaluations"] for m in sub.values())
    distinct = sum(len(m["nontrivial"]) for m in sub.values())
    samples = []
    for name, m in sub.items():
        for s in m["samples"][:1]:
            samples.append({"subcheck": name, "case": s})
    known = load_known(prop)
    known_hits = {}
    for m in sub.values():
        for k, v in m["known_hits"].items():
            known_hits[k] = known_hits.get(k, 0) + v

    wall = time.time() - t0
    evidence = {
        "property_id": prop,
        "tier": tier,
        "seed": seed,
        "level": "exploration",
        "coverage": {
            "evaluations": evaluations,
            "distinct_nontrivial": distinct,
            "rule": getattr(mod, "RULE", ""),
            "samples": samples[:6] or [{"note": "no non-trivial sample recorded"}],
            "comparisons": sum(m["comparisons"] for m in sub.values()),
            "exhaustive": bool(getattr(mod, "EXHAUSTIVE", False)) and tier == "thorough",
            "bounds": getattr(mod, "BOUNDS", "") + (
                " | thorough tier: respondents up to 48, +2 valid categories, +1 item"
                if tier == "thorough" else ""),
            "subchecks": {
                name: {
                    "evaluations": m["evaluations"],
                    "distinct_nontrivial": len(m["nontrivial"]),
                    "comparisons": m["comparisons"],
                    "classes": m["classes"],
                    "known_finding_hits": m["known_hits"],
                    "wall_s": m["wall_s"],
                }
                for name, m in sub.items()
            },
            "regression_replays": n_reg,
            "library": loc,
            "shards": nsh,
        },
        "assumptions": list(getattr(mod, "ASSUMPTIONS", [])),
        "wall_s": round(wall, 2),
        "violations": len(fails),
        "known_findings_reproduced": known_hits,
    }
    os.makedirs(os.path.join(OUT, "evidence"), exist_ok=True)
    with open(os.path.join(OUT, "evidence", "%s.json" % prop), "w") as f:
        json.dump(evidence, f, indent=1, sort_keys=True)

    for name, m in sorted(sub.items()):
        print("  %-28s cases=%-7d nontrivial=%-7d comparisons=%-9d %5.1fs" % (
            name, m["evaluations"], len(m["nontrivial"]), m["comparisons"], m["wall_s"]))
    for sig, what in sorted(known.items()):
        hits = known_hits.get(sig, 0)
        print("KNOWN-FINDING: property=%s %s -- %s (reproduced %d times this run)" % (
            prop, sig, what, hits))
    if errors:
        print("HARNESS-ERROR in %d shard(s):\n%s" % (len(errors), errors[0][-3000:]))
        return 2
    if fails:
        # one replay per distinct signature; first one is reported on the VIOLATION line
        seen = {}
        for fl in fails:
            seen.setdefault(fl["signature"], fl)
        first = True
        for sig, fl in sorted(seen.items(), key=lambda kv: len(json.dumps(kv[1]["case"]))):
            rel = write_replay(prop, fl)
            print("violation [%s]: %s" % (sig, fl["message"]))
            print("VIOLATION property=%s replay=%s" % (prop, rel))
        return 1
    min_frac = getattr(mod, "MIN_NONTRIVIAL_FRACTION", 0.02)
    if evaluations == 0 or distinct < 2 or distinct < min_frac * evaluations:
        print("HARNESS-ERROR vacuous: %d non-trivial of %d cases" % (distinct, evaluations))
        return 2
    print("OK property=%s tier=%s seed=%d cases=%d nontrivial=%d wall=%.1fs" % (
        prop, tier, seed, evaluations, distinct, wall))
    return 0


if __name__ == "__main__":
    sys.exit(main())
