"""Environment pinning: the checks must execute /repo's *current working tree*.

`cr_cube` is an editable install in /venv pointing at /repo/src; nevertheless REPO/src is
put first on sys.path and the import location is asserted, so a stale copy can never be
the thing under test.  REPO can be overridden (mutation self-test on a scratch copy).
"""
import os
import sys

VERIF = os.path.dirname(os.path.dirname(os.path.abspath(__file__)))
REPO = os.environ.get("VERIF_REPO", "/repo")
SRC = os.path.join(REPO, "src")
DEPS = os.path.join(VERIF, ".deps")


class HarnessError(Exception):
    """A problem of the machinery (exit 2), never a property violation."""


def pin():
    if os.path.isdir(DEPS) and DEPS not in sys.path:
        sys.path.append(DEPS)
    if SRC in sys.path:
        sys.path.remove(SRC)
    sys.path.insert(0, SRC)
    # the editable install pre-creates a namespace module `cr` whose __path__ points at
    # /repo/src/cr; re-point it so that VERIF_REPO (mutation self-test) really is honoured
    crmod = sys.modules.get("cr")
    want = os.path.join(SRC, "cr")
    if crmod is not None and list(getattr(crmod, "__path__", [])) != [want]:
        for name in [m for m in sys.modules if m == "cr" or m.startswith("cr.")]:
            if name != "cr":
                del sys.modules[name]
        crmod.__path__ = [want]
    import cr.cube  # noqa

    loc = os.path.realpath(cr.cube.__file__)
    if not loc.startswith(os.path.realpath(SRC) + os.sep):
        raise HarnessError("cr.cube imported from %s, not from %s" % (loc, SRC))
    return loc


def seed():
    try:
        return int(os.environ.get("VERIF_SEED", "1"))
    except ValueError:
        return 1


def tier():
    t = os.environ.get("VERIF_TIER", "quick")
    return t if t in ("quick", "thorough") else "quick"


def debug_shapes():
    """VERIF_SHAPES='cat,cai,cac;mr,cai,cac' restricts scenario shapes (exploration aid only)."""
    v = os.environ.get("VERIF_SHAPES")
    if not v:
        return None
    return [tuple(t for t in s.split(",") if t) for s in v.split(";")]
