#!/usr/bin/env python3
"""Regenerates MANIFEST.json from the table below (kept in one place so the manifest is
always valid and in step with props/)."""
import json, os

HERE = os.path.dirname(os.path.abspath(__file__))
BASE = "cd /repo && /venv/bin/python -m pytest -ra -q -p no:cacheprovider --timeout=900 --continue-on-collection-errors"

CHECKS = {
    "C01": ("respondent-level set-membership oracle vs. every cell of every partition (Hypothesis, generated surveys)",
            "Generated-input search: every weighted/unweighted count and numeric cell of slices, strands, nubs and the cube tensors is compared with brute-force sums over respondents for thousands of random surveys over all supported dimension pairings. Exploration, not proof; bounded sizes.",
            "Trusts the brute-force encoder's zz9 layout (validated against the fixture-pinned library) and Hypothesis' generators; sizes bounded (N<=24, <=4 valid categories, <=3 items).", "6 C01"),
}
CHECKS["C02"] = ("respondent-level eligibility oracle vs. per-cell bases, margins, ranges and mask (Hypothesis)",
    "Generated-input search over surveys with per-item missingness and random subtotal/difference insertions: the six base matrices, 1-D/2-D margins, scalar/1-D/2-D table base and margin, their ranges and the min-base mask are each compared with the count of respondents eligible for the denominator, one by one. Exploration. A third sub-check reads the bases of a slice one of whose dimensions has no valid element (known finding: IndexError).",
    "Trusts encoder and oracle predicates (membership / validity per item); bounded sizes; threshold 0..12.", "6 C02")
CHECKS["C03"] = ("oracle + defining relations (count/base, x100, sums to one over hidden-included base elements) on generated surveys",
    "Generated-input search: proportions vs public count/base and vs respondent-level count/base, NaN iff zero base, [0,1] bound, percentages, sums to one with hidden elements read from an un-hidden reference run, margin proportions. One known finding (2-D margin-proportion fallback) is excluded by signature and reported.",
    "Difference cells are left to C04; numpy warnings not escalated.", "6 C03")
CHECKS["C07"] = ("constructive order specification vs. row_order/column_order (signed + ins_N), labels and codes; Hypothesis + exhaustive enumeration of small dimensions",
    "Generated-input search plus bounded exhaustive enumeration: random dimensions/insertions/anchors/explicit lists/hidden+pruned sets on slices and strands, and (thorough) every small configuration (n<=3, <=2 insertions, all anchor spellings, all explicit lists up to n+1, all hidden subsets) are compared with an executable specification of the statement. Three genuine defects found and fixed (see known_findings.json).",
    "Specification transcribed from the statement; emptiness taken from the C09 oracle; derived MR items under explicit order not yet generated.", "6 C07")
CHECKS["C09"] = ("respondent-level emptiness oracle vs. displayed element/subtotal sets (Hypothesis)",
    "Generated-input search with zero-heavy and fractional weights, never-selected / never-shown items and all hide/prune combinations on 2-D, 3-D and 1-D partitions; displayed sets, shape, is_empty and labels are compared with 'visible iff not hidden and not (prune and empty by unweighted eligibility)' and the subtotal rule.",
    "Emptiness rule is the statement's (MR: selected+not-selected, except MR x MR).", "6 C09")
CHECKS["C05"] = ("metamorphic relation: every public output of a transformed run == the untransformed output re-indexed by row_order()/column_order() (Hypothesis; outputs enumerated by introspection)",
    "Generated-input search: for random surveys, insertions and random order (explicit, payload, every sort-by-value type with fixed lists incl. repeats) + hide + prune on both dimensions, all ~120 public lazyproperties of _Slice (and ~60 of _Strand) and the pairwise methods are snapshotted with and without the display transforms and compared through the reported signed display order; duplicates, extents, scalars, position-valued outputs included. Two defects fixed, three recorded as known findings.",
    "Partitions with every row or column hidden have only shape/labels/codes judged; outputs that raise without any display transform are treated as unavailable.", "6 C05")
CHECKS["C04"] = ("metamorphic merge-the-addends relation + respondent-level signed sums + wave-difference rule (Hypothesis)",
    "Generated-input search with three oracles: (direct) every inserted cell vs the signed sum over respondents and the NaN rules; (merge) the survey is rewritten so the addends are one category and every measure of the subtotal vector (counts, six bases, proportions, variances, std-errs, MoEs, z/p when both tables have rank>=2, pairwise t/p as compared and as selected column, scale statistics, population estimates) must equal the merged category's; (wave) categorical-date one-minus-one and multi-term differences. Two defects fixed, one recorded.",
    "Share of sum is judged in C15; legacy PairwiseSignificance helpers and smoothed series excluded from the equivalence (stated in evidence).", "6 C04")
CHECKS["C06"] = ("metamorphic relation: partition k of a 3-D / multi-cube response == the 2-D (1-D) analysis of the survey restricted to table element k (Hypothesis)",
    "Generated-input search: 3-D cubes with CAT (missing categories anywhere) / MR / CA-items table dimensions crossed with all row x column pairings and random transforms; for each valid table element the respondents are restricted, re-encoded as a 2-D cube and every public output compared; tabbook, CA-as-0th and numeric-summary CubeSets compared with their constituent analyses. Defects found and fixed: 3-D column index baseline, four in augment_response.",
    "Ties the 3-D / CubeSet paths to the 2-D path, which C01-C03/C11-C16 tie to respondents. CA categories as table dimension are not generated. Single-column-filter augmentation (text / binned rows, weighted, every response form, re-use of the response) is; CA-as-0th with a numeric summary is a recorded known finding.", "6 C06")
CHECKS["C10"] = ("metamorphic relation: re-encode the survey with dimensions exchanged and transforms mirrored; paired outputs must be transposes / twins (Hypothesis)",
    "Generated-input search over all A x B pairings (except numeric arrays), with insertions, differences, hide, prune and mirrored orders: 23 direction-free outputs, 9 row/column matrix twins, 17 vector/scalar twins, table base/margin, orders and masks of the two runs are compared. Found the share-of-sum denominators defect (fixed).",
    "Both runs come from the library; independence comes from re-encoding the data in the other axis order so that every row-path is checked against the column-path. Both-categorical-date population outputs excluded.", "6 C10")
CHECKS["C15"] = ("respondent-level sums vs. row / column / total share over base-cell totals, incl. inserted rows, columns and intersections (Hypothesis)",
    "Generated-input search on sum responses (CAT x CAT, MR x CAT, CAT x MR, NUM_ARRAY x CAT/MR, strands) with NaN sums and random insertions on rows and/or columns; every share is compared with sum / base-cell total recomputed from respondents; base shares sum to 1. Found the inserted-row / intersection denominators defect (fixed).",
    "Differences and inserted cells with a NaN addend are not judged (statement silent / encoder-dependent).", "6 C15")
CHECKS["C11"] = ("respondent-level weighted variance of the +1/-1/0 indicator over each proportion's base vs variances, std-dev, std-err, MoE (Hypothesis)",
    "Generated-input search: for every cell (ordinary, subtotal, difference, intersection) and direction the variance is recomputed by looping over the respondents of the base with the signed indicator, then sqrt, sqrt(var/base) and 1.959964x; compared with 12 slice outputs and 3 strand outputs; non-negativity and NaN rules. One degenerate-input finding recorded (same id as addend and subtrahend).",
    "Wave differences (categorical-date) are not judged; tolerance 1e-9.", "6 C11")
CHECKS["C12"] = ("statement formula from respondent-level counts and per-cell bases; erfc p-values; 2x2 Pearson chi-square; exact rational rank for the degenerate rule (Hypothesis)",
    "Generated-input search over all pairings incl. MR per-cell bases, subtotal rows/columns and deliberately degenerate tables: z and p recomputed per cell from the oracle's bases, chi-square identity on 2x2, all-NaN when the exact rank of the base counts is < 2.",
    "Zero-denominator cells only required non-finite; p-values via math.erfc (different route from scipy.stats.norm).", "6 C12")
CHECKS["C13"] = ("respondent-level t / df / Student-t p (incomplete beta), Welch test from the response's means/stddevs/counts, overlap-corrected statistic from S/N tabulations, index sets recomputed from public t/p (Hypothesis)",
    "Generated-input search: weighted tables with and without squared weights (effective base), categorical / MR columns, subtotal rows and columns as selected or compared column, every alpha pair and only-larger flag; antisymmetry, symmetry, zero diagonal, index-set definition and alt-superset; legacy pairwise_significance_tests must agree with the current API on CAT x CAT (defect found and fixed).",
    "zz9 overlap measure semantics assumed as documented in the library's docstrings; behaviour under column reorder/hide is judged by C05.", "6 C13")
CHECKS["C14"] = ("respondent-level multiset of opposing numeric values -> weighted mean, population std-dev, median by literal repetition, std-err; vs. slice and strand scale outputs (Hypothesis)",
    "Generated-input search with partial / repeated / negative / unsorted numeric values and zero-count categories between populated ones: every row and column vector incl. subtotals, the four *_margin scalars on CAT x CAT, and strands. Two defects found and fixed (median at exact 50% split; strand median NaN vs None).",
    "Median only for integer counts; differences not judged; margins judged without hidden vectors.", "6 C14")
CHECKS["C16"] = ("respondent-level column proportion / unconditional row share with row-dependent column missingness (Hypothesis)",
    "Generated-input search over CAT/MR pairings, 2-D and every slice of 3-D cubes (missing table categories in front), with column answers made missing depending on the row answer so that conditional and unconditional shares differ; each base cell compared with 100 x col proportion / (members / eligible regardless of column answer); NaN for insertions. (The 3-D baseline defect was found by C06 and fixed.)",
    "CA and numeric-array pairings are outside the statement's domain.", "6 C16")
CHECKS["C17"] = ("statement's fraction cascade re-implemented + defining relation estimates = population x fraction x (table | within-date | 1) proportion, MoE from matching std-err; metamorphic population scaling (Hypothesis)",
    "Generated-input search over all shapes of the filter block (absent, old style, new style, zeros, documented nulls), population values incl. None/0/fractional, categorical-date on rows / columns / neither / strand, with subtotals and differences. Two crashes found and fixed (categorical-date strand with a difference; two differences).",
    "Proportions / std-errs of the same run serve as the population proportion (C03/C11 tie them to respondents); both-dimensions-categorical-date only fraction + linearity.", "6 C17")
CHECKS["C20"] = ("four-line trailing-mean specification vs smoothed outputs; bounded exhaustive enumeration of (L, window, rows, function, date?, value pattern) + Hypothesis with display transforms on the date dimension",
    "Exhaustive over L<=8, window in {None,-1,0..L+2}, 0..3 rows, both function spellings, categorical-date or not, six value patterns incl. NaN/0 (through smoothed_means of slices and strands) plus random surveys for smoothed column proportions / percentages / index / means and the smoothed scale mean, with row subtotals and hide / explicit order on the date dimension. One defect fixed (window 0).",
    "Subtotal columns on the date dimension are not periods and are not judged.", "6 C20")
CHECKS["C08"] = ("order of a sorted run judged against the PUBLIC measure of an un-ordered reference run: fixed brackets, monotone body, NaN-last, subtotal group, fallback = anchored specification (Hypothesis)",
    "Generated-input search over every sortable measure keyword (33), marginal keyword (7), strand keyword (13), label sort, both directions, fixed lists with repeats and stale ids, hide/prune, rows and columns, slices and strands; unresolvable keys (unknown element / insertion id, measure not in the response, undefined marginal) must give the anchored payload order of the C07 specification.",
    "Population keywords only with fraction 1 and positive population; ties are free (non-strict monotonicity).", "6 C08")
CHECKS["C18"] = ("Hypothesis rule-based state machine over shared argument objects vs a history-free reference; dict / JSON / envelope / JSON-of-envelope forms; sampled 8-thread schedules; re-use of responses across cube sets; permuted / reversed full reads vs per-output fresh cubes; cross-process evaluation under different PYTHONHASHSEED values",
    "Model-based stateful search: cubes and cube sets are built repeatedly on ONE shared response (dict, JSON text, {'value':...} envelope around the same dict) and ONE shared transforms dict; random histories of reads (every public lazyproperty, pairwise and order methods, cube and cube-set properties) with re-reads and interleavings across partitions / cubes; each value must equal the value a fresh cube on pristine deep copies gives for that single read. The reference is itself tied to respondents (embedded C01 check). Sampled thread schedules found two genuine races (fixed).",
    "Thread schedules are sampled, never enumerated: a race can be found, not excluded. Hypothesis replay-divergence is reported as a violation because the harness is deterministic.", "6 C18")
CHECKS["C19"] = ("metamorphic relation across spellings of one array item (alias / sub-variable id / element id int+str / zero-based position; datetime position id / value) in every reference-taking slot; unmatched references ignored (Hypothesis)",
    "Generated-input search over MR (with derived items), CA, numeric-array and datetime dimensions with 0-based / 1-based / sparse element ids; slots: element hide, rename, explicit order, fixed top, fixed bottom, sort by opposing element; all unambiguous spellings must give identical labels, orders and counts and the intended effect; stale / malformed references (unknown string, out-of-range, negative, None) change nothing, including on re-use of the in-place rewritten dict. The int(None) TypeError defect was found (via C05) and fixed.",
    "Spellings that collide with another item's spelling are not used.", "6 C19")
NOT_BUILT = {}

# sentences appended to the level text by the later rounds (13-14)
EXTRA = {
    "C02": " Prune flags on either / both dimensions are drawn too (ranges judged over all base cells); a categorical array inside a table variable is a drawn 3-D shape.",
    "C04": " Every judge first performs drawn warm-up reads of other outputs (access-order sensitivity).",
    "C06": " After all slices were read (with drawn warm-up reads) the partitions are requested a second time and the last one is compared again.",
    "C08": " 3-D shapes are drawn and EVERY slice is judged against its own values under the one shared transform; drawn warm-up reads precede the order request.",
    "C13": " 3-D shapes are drawn and every slice of the cube is judged against its own respondents; drawn warm-up reads.",
    "C14": " 3-D shapes are drawn and the scale statistics of every slice of the cube are judged against that slice's respondents.",
    "C15": " 3-D shapes are drawn and the shares of every slice are judged against that slice's respondents.",
    "C03": " On categorical-date columns the smoothed proportions are read before the plain ones in half of the cases.",
    "C17": " The fraction is also required from a second cube and a cube set built from the SAME response object.",
    "C20": " Every unsmoothed output read after its smoothed form on the transformed partition is compared with its value on a partition where it was read first.",
    "C18": " set-reuse also hands the responses over as JSON text.",
    "C19": " Dictionaries that list several unmatched references before the live key, and several spellings of one item before another live item, are drawn as well.",
}
for _k, _v in EXTRA.items():
    _t = CHECKS[_k]
    CHECKS[_k] = (_t[0], _t[1] + _v, _t[2], _t[3])


def main():
    props = [json.loads(l) for l in open(os.path.join(HERE, "properties.jsonl"))]
    checks, na = [], []
    for p in props:
        pid = p["id"]
        if pid in CHECKS:
            tech, text, note, ref = CHECKS[pid]
            checks.append({
                "property_id": pid,
                "quick_cmd": "./check %s --tier quick" % pid,
                "thorough_cmd": "./check %s --tier thorough" % pid,
                "evidence_file": "evidence/%s.json" % pid,
                "replay_cmd_template": "./check %s --replay {path}" % pid,
                "engine": "hypothesis-survey-oracle",
                "level_claimed": {"category": "exploration", "text": text, "design_ref": "DESIGN.md section " + ref},
                "level_note": note,
                "technique": "property-based testing: " + tech,
            })
        else:
            na.append({"property_id": pid, "reason": NOT_BUILT.get(pid, "check not built yet in this round (planned in DESIGN.md section 6); not claimed until it runs")})
    m = {
        "version": 1,
        "setup_cmd": "./setup.sh",
        "hooks": {"guard": "CRUNCH_IO_CRUNCH_CUBE_VERIF", "enable": "no hooks are needed: every property is observable through the public API; the guard name is reserved only",
                  "baseline_off_cmd": BASE, "source_commits": [], "add_only": True},
        "engines": [{"name": "hypothesis-survey-oracle", "path": "engine/", "serves_properties": sorted(CHECKS),
                     "kind_free_text": "Hypothesis strategies generate respondent-level surveys + queries + transforms; a brute-force encoder builds the zz9-shaped response; independent oracles (set membership, metamorphic relations, executable order spec) judge the library's public outputs; 16 shards, seeded by VERIF_SEED"}],
        "checks": checks,
        "not_applicable": na,
        "notes": "All checks: exit 0 held / exit 1 VIOLATION line / exit 2 harness problem (inconclusive). known_findings.json lists genuine defects (recorded or fixed).",
    }
    json.dump(m, open(os.path.join(HERE, "MANIFEST.json"), "w"), indent=1)

if __name__ == "__main__":
    main()
