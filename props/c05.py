"""C05 - display transforms only select and reorder; every output stays aligned."""
import copy

import numpy as np
from hypothesis import strategies as st

from engine import lib, observe, scen, xforms, zz9enc
from engine.cmp import close
from engine.observe import Raised
from engine.oracle import apparent_dims
from engine.runner import SubCheck

PROPERTY = "C05"
RULE = (
    "For a random survey/pairing with insertions B (no ordering/hiding) and T = B + random "
    "explicit / payload / sort-by-value orders, fixed lists (with repeats), hide flags and "
    "prune flags on both dimensions at once, EVERY public lazyproperty of the partition "
    "(found by introspection) plus the pairwise methods is snapshotted for B and T and T's "
    "value at display position (p,q) must equal B's value at the signed indices "
    "T.row_order()[p], T.column_order()[q]; position-valued outputs are mapped to signed "
    "indices; scalars identical; no signed index twice; extents match shape. Non-trivial: T "
    "hides/prunes at least one vector or changes the relative order of two."
)
BOUNDS = "respondents 0..20, valid categories 1..4, items 1..3, insertions 0..3 per dimension"
ASSUMPTIONS = [
    "numeric-array cubes are only sorted by the measures defined for them (mean/sum/stddev/"
    "counts/bases/shares): column index and residual statistics across sub-variables are "
    "outside C16/C12's domain",
    "B hides nothing, so 'hidden elements still count' follows from T == re-indexed B",
    "an output that raises in B must raise the same exception type in T (and vice versa)",
]

SHAPES = scen.SHAPES_2D * 2 + scen.SHAPES_NA[:2] + [
    ("cat", "cat", "cat"), ("mr", "cat", "mr"), ("cat", "mr", "cat")]


def _dim_refs(sv, d):
    var = sv["vars"][d["var"]] if d else sv["vars"]["na"]
    return var, (d or {}).get("part"), xforms.element_refs(var, (d or {}).get("part"))


@st.composite
def case_st(draw, shapes, strand=False):
    sc = draw(scen.scenario_st(shapes, measure="maybe", max_n=20, numeric="some",
                               stats=["mean", "sum", "stddev"]))
    sv, q = sc["survey"], sc["query"]
    # derived (zz9-computed) MR items: placed at their anchors, reported by derived_*_idxs
    from props.c07 import _add_derived
    for var in sv["vars"].values():
        if var["type"] == "mr" and draw(st.integers(0, 2)) == 0:
            _add_derived(draw, var)
    is_na = bool(q.get("measure")) and sv["vars"][q["measure"]["var"]]["type"] == "numarr"
    if strand:
        dims = [None] if is_na else q["dims"][-1:]
        names = ["rows_dimension"]
    else:
        dims = ([None] + q["dims"][-1:]) if is_na else q["dims"][-2:]
        names = ["rows_dimension", "columns_dimension"]
    base, full, meta = {}, {}, {}
    info = []
    for name, d in zip(names, dims):
        var, part, refs = _dim_refs(sv, d)
        ins = []
        if d is not None and xforms.can_insert(var, part) and draw(st.booleans()):
            v, m = xforms.dim_ids(var, part)
            ins = draw(xforms.insertions_st(v, m, max_ins=3, allow_malformed=False,
                                            with_id=True))
            base.setdefault(name, {})["insertions"] = ins
        # element renames / fills are part of BOTH runs: they must follow the display order
        if refs and draw(st.integers(0, 2)) == 0:
            tgt = draw(st.lists(st.sampled_from(list(refs)), min_size=1, max_size=2, unique=True))
            els = {}
            for k_, r_ in enumerate(tgt):
                els[str(r_)] = draw(st.sampled_from([{"name": "REN%d" % k_},
                                                      {"fill": "#0%d0%d0%d" % (k_, k_, k_)},
                                                      {"name": "REN%d" % k_, "fill": "#abcdef"}]))
            base.setdefault(name, {})["elements"] = els
        info.append((name, var, part, refs, ins))
    for k, (name, var, part, refs, ins) in enumerate(info):
        t = copy.deepcopy(base.get(name, {}))
        opp = info[1 - k] if len(info) == 2 else None
        axis = "strand" if strand else ("rows" if k == 0 else "cols")
        order = draw(xforms.order_st(refs, opp[3] if opp else [],
                                     [i["id"] for i in (opp[4] if opp else [])], axis,
                                     measures=xforms.NUMARR_MEASURES if is_na else None))
        if order:
            t["order"] = order
        elements, prune = draw(xforms.hide_prune_st(refs, p_hide=2, p_prune=2))
        if elements:
            merged = dict(t.get("elements") or {})
            for k_, v_ in elements.items():
                merged[k_] = dict(merged.get(k_, {}), **v_)
            t["elements"] = merged
        if prune:
            t["prune"] = True
        if t:
            full[name] = t
    if any(v.get("flavour") == "cat_date" for v in sv["vars"].values() if v["type"] == "cat") \
            and draw(st.booleans()):
        key = "rows_dimension" if strand else "columns_dimension"
        sm = {"function": "one_sided_moving_avg", "window": draw(st.integers(1, 4))}
        base.setdefault(key, {})["smoother"] = sm
        full.setdefault(key, {})["smoother"] = sm
    if draw(st.integers(0, 3)) == 0:
        pw = {"alpha": draw(st.sampled_from([[0.05], [0.3, 0.6], [0.9, 0.5]])),
              "only_larger": draw(st.booleans())}
        base["pairwise_indices"] = pw
        full["pairwise_indices"] = pw
    sc["base"] = base
    sc["full"] = full
    sc["population"] = draw(st.sampled_from([None, 1000]))
    sc["mask_size"] = draw(st.sampled_from([0, 3]))
    return sc


def _eq(a, b):
    """Tolerant equality for scalars of any kind."""
    if isinstance(a, Raised) or isinstance(b, Raised):
        return isinstance(a, Raised) and isinstance(b, Raised) and a.type == b.type
    if a is None or b is None:
        return a is None and b is None
    if isinstance(a, (str, bytes)) or isinstance(b, (str, bytes)):
        return str(a) == str(b)
    try:
        return close(a, b)
    except (TypeError, ValueError):
        return a == b


def _arr_eq(a, b):
    a = np.asarray(a)
    b = np.asarray(b)
    if a.size == 0 and b.size == 0:
        return True  # an empty partition: (0,) and (0, 0) carry the same (no) values
    if a.shape != b.shape:
        return False
    if a.dtype.kind in "fiub" and b.dtype.kind in "fiub":
        return all(close(x, y) for x, y in zip(a.ravel().tolist(), b.ravel().tolist()))
    return all(_eq(x, y) for x, y in zip(a.ravel().tolist(), b.ravel().tolist()))


class Aligner:
    def __init__(self, rB, cB, rT, cT, rows_array, cols_array):
        self.rB, self.cB, self.rT, self.cT = rB, cB, rT, cT
        self.posR = [rB.index(s) for s in rT]
        self.posC = [cB.index(s) for s in cT] if cT is not None else None
        self.rows_array, self.cols_array = rows_array, cols_array

    def expect(self, kind, vB):
        """B's value re-indexed into T's display order."""
        if kind == "S":
            return vB
        if vB is None:
            return None
        a = np.asarray(vB)
        if kind == "RM":
            kind = "R" if a.ndim == 1 else "M"
        if kind == "CM":
            kind = "C" if a.ndim == 1 else "M"
        if kind == "T":
            if a.ndim == 0:
                return vB
            kind = "M" if a.ndim == 2 else ("R" if self.rows_array else "C")
        if kind == "M":
            return a[np.ix_(self.posR, self.posC)] if a.ndim == 2 else a
        if kind == "M2":
            return a[:, self.posR, :][:, :, self.posC]
        if kind == "R":
            return a[self.posR]
        if kind == "C":
            return a[self.posC]
        raise ValueError(kind)


def _pos_sets(value, own_order):
    """tuple of positions -> frozenset of signed indices"""
    return frozenset(int(own_order[i]) for i in value)


def compare_partition(pB, pT, rec, is_slice, rows_array, cols_array, has_alt):
    rB = [int(x) for x in pB.row_order()]
    rT = [int(x) for x in pT.row_order()]
    cB = [int(x) for x in pB.column_order()] if is_slice else None
    cT = [int(x) for x in pT.column_order()] if is_slice else None
    for which, o, ob in (("row", rT, rB), ("column", cT, cB)):
        if o is None:
            continue
        if len(set(o)) != len(o):
            rec.violation("%s order lists a vector twice: %r" % (which, o), "duplicate-in-order")
            return False
        if not set(o) <= set(ob):
            rec.violation("%s order %r has vectors unknown to the untransformed run %r" % (
                which, o, ob), "unknown-vector")
            return False
    changed = (rT != rB) or (cT != cB)
    if changed:
        rec.nontrivial()
    al = Aligner(rB, cB, rT, cT, rows_array, cols_array)
    shape = (len(rT), len(cT)) if is_slice else (len(rT),)
    if tuple(pT.shape) != shape:
        rec.violation("shape %r but orders have lengths %r" % (pT.shape, shape), "shape")
    names = None
    if 0 in shape:
        # a partition with every row or every column hidden/pruned: only its shape, labels
        # and codes are judged (value outputs of an empty table are out of scope)
        rec.event("empty partition")
        names = [n for n in ("row_labels", "column_labels", "row_codes", "column_codes",
                             "row_aliases", "column_aliases", "counts")
                 if is_slice or n.startswith("row") or n == "counts"]
    sB = observe.snapshot(pB, names)
    sT = observe.snapshot(pT, names)
    unclassified = 0
    for name in sorted(sB):
        kind = observe.kind_of(pB, name)
        vB, vT = sB[name], sT[name]
        if kind in ("X",):
            continue
        if kind is None:
            unclassified += 1
            continue
        rec.compared()
        sig = _signature(name, rows_array, cols_array)
        if isinstance(vB, Raised):
            if kind in ("RI", "CI") or name in STRUCTURAL:
                # defined for every partition (positions, labels, codes): a read that fails
                # has no extent at all, let alone one matching the reported shape
                rec.violation("%s cannot be read: %r (row order %r, column order %r)" % (
                    name, vB, rB, cB), "unreadable-" + name)
                continue
            # unavailable without any display transform: nothing to align against
            rec.event("unavailable in untransformed run")
            continue
        if isinstance(vT, Raised):
            rec.violation("%s: untransformed %s, transformed %r" % (name, _short(vB), vT),
                          sig or ("raise-" + name))
            continue
        try:
            ok = _compare_kind(kind, name, vB, vT, al, pB, pT)
        except (IndexError, ValueError) as e:
            ok = False
            vT = "%r (extent mismatch: %s)" % (getattr(vT, "shape", vT), e)
        if not ok:
            rec.violation(
                "%s is not the untransformed output re-indexed by the display order: got %r, "
                "untransformed %r, row order %r (untransformed %r), column order %r "
                "(untransformed %r)" % (name, _short(vT), _short(vB), rT, rB, cT, cB),
                sig or ("misaligned-" + name))
    if unclassified:
        rec.event("unclassified outputs: %d" % unclassified)
    # --- methods with arguments (per selected column)
    if is_slice and cT and rT:
        for fname in ("pairwise_significance_t_stats", "pairwise_significance_p_vals",
                      "pairwise_significance_means_t_stats",
                      "pairwise_significance_means_p_vals"):
            for q in sorted({0, len(cT) - 1}):
                vT = _call(pT, fname, q)
                vB = _call(pB, fname, al.posC[q])
                rec.compared()
                if isinstance(vB, Raised):
                    continue
                if isinstance(vT, Raised):
                    rec.violation("%s(%d): untransformed ok, transformed %r" % (
                        fname, q, vT), "raise-" + fname)
                    continue
                if not _arr_eq(vT, al.expect("M", vB)):
                    rec.violation("%s(%d) is not the re-indexed untransformed output" % (
                        fname, q), "misaligned-" + fname)
    return True


STRUCTURAL = {"row_labels", "column_labels", "row_codes", "column_codes", "row_aliases",
              "column_aliases", "rows_dimension_fills", "columns_dimension_fills", "shape",
              "counts", "unweighted_counts"}


def _signature(name, rows_array, cols_array):
    """Signature of a *known* finding this output may reproduce (else None)."""
    if name == "rows_margin_proportion" and cols_array:
        return "margin-proportion-2d-double-assembly"
    if name == "columns_margin_proportion" and rows_array:
        return "margin-proportion-2d-double-assembly"
    if name in ("rows_scale_mean_margin", "rows_scale_median_margin",
                "columns_scale_mean_margin", "columns_scale_median_margin"):
        return "scale-margin-from-displayed-vectors"
    if name in ("columns_scale_mean_pairwise_indices", "columns_scale_mean_pairwise_indices_alt",
                "summary_pairwise_indices", "pairwise_significance_tests"):
        return "legacy-pairwise-from-displayed-slice"
    return None


def _is_empty(v):
    """An output with zero extent (every vector of a dimension hidden) carries no value."""
    try:
        return v is not None and np.asarray(v, dtype=object).size == 0
    except Exception:  # noqa
        return False


def _call(part, fname, q):
    try:
        return getattr(part, fname)(q)
    except Exception as e:  # noqa
        return Raised(e)


def _short(v):
    if isinstance(v, str):
        s = v
    else:
        try:
            s = repr(np.asarray(v).tolist())
        except ValueError:
            s = repr(v)
    return s if len(s) < 300 else s[:300] + "..."


def _compare_kind(kind, name, vB, vT, al, pB, pT):
    if kind == "S":
        if isinstance(vB, (tuple, list, np.ndarray)):
            return _arr_eq(np.asarray(vB, dtype=object), np.asarray(vT, dtype=object)) \
                if np.asarray(vB).dtype.kind not in "fiub" else _arr_eq(vB, vT)
        return _eq(vB, vT)
    if vB is None or vT is None:
        return vB is None and vT is None
    if kind in ("M", "M2", "R", "C", "RM", "CM", "T"):
        return _arr_eq(vT, al.expect(kind, vB))
    if kind == "MASK":
        return all(_arr_eq(getattr(vT, m), al.expect("M", getattr(vB, m)))
                   for m in ("row_mask", "column_mask", "table_mask"))
    if kind == "LEGACY":
        if len(vT) != len(al.cT):
            return False
        for q in range(len(vT)):
            for attr in ("t_stats", "p_vals"):
                try:
                    b = np.asarray(getattr(vB[al.posC[q]], attr), dtype=float)
                except Exception:  # noqa - unavailable without transforms: nothing to align
                    continue
                t = np.asarray(getattr(vT[q], attr), dtype=float)
                if not _arr_eq(t, al.expect("M", b)):
                    return False
        return True
    if kind in ("RI", "CI"):
        oT, oB = (al.rT, al.rB) if kind == "RI" else (al.cT, al.cB)
        return _pos_sets(vT, oT) == (_pos_sets(vB, oB) & frozenset(oT))
    if kind == "PI":
        eB = al.expect("M", _obj(vB))
        if eB.size == 0 and np.asarray(vT, dtype=object).size == 0:
            return True
        vT = _obj(vT)
        if vT.shape != eB.shape:
            return False
        for idx in np.ndindex(vT.shape):
            if _pos_sets(vT[idx], al.cT) != (_pos_sets(eB[idx], al.cB) & frozenset(al.cT)):
                return False
        return True
    if kind == "PC":
        eB = [vB[i] for i in al.posC]
        if len(vT) != len(eB):
            return False
        return all(_pos_sets(t, al.cT) == (_pos_sets(b, al.cB) & frozenset(al.cT))
                   for t, b in zip(vT, eB))
    raise ValueError(kind)


def _obj(v):
    a = np.empty(np.asarray(v, dtype=object).shape[:2], dtype=object)
    src = np.asarray(v, dtype=object)
    if src.ndim > 2:  # tuples of equal length became an extra axis
        for idx in np.ndindex(a.shape):
            a[idx] = tuple(src[idx].tolist())
    else:
        for idx in np.ndindex(a.shape):
            a[idx] = tuple(src[idx]) if src[idx] is not None else ()
    return a


def judge(case, rec):
    sv, q = case["survey"], case["query"]
    resp = zz9enc.encode(sv, q)
    cB = lib.cube(resp, case["base"], case["population"], case["mask_size"])
    cT = lib.cube(resp, case["full"], case["population"], case["mask_size"])
    for _p in cT.partitions:
        lib.warm(_p, case.get("warmup"))
    dims = apparent_dims(sv, q)
    rec.event("shape=" + "x".join(case["shape"]))
    for name in ("rows_dimension", "columns_dimension"):
        o = (case["full"].get(name) or {}).get("order") or {}
        rec.event("order=%s" % o.get("type", "none"))
    is_slice = len(dims) >= 2
    rows_array = dims[-2].is_array if is_slice else dims[-1].is_array
    cols_array = dims[-1].is_array if is_slice else False
    for pB, pT in zip(cB.partitions, cT.partitions):
        compare_partition(pB, pT, rec, is_slice, rows_array, cols_array, True)


SUBCHECKS = [
    SubCheck("slices", case_st(SHAPES), judge, quick=4000, thorough=60000),
    SubCheck("strands", case_st([s for s in scen.SHAPES_1D], strand=True), judge,
             quick=2400, thorough=30000),
]
