"""C04 - subtotals behave as merged categories; differences as signed merges."""
import copy
from fractions import Fraction

import numpy as np
from hypothesis import strategies as st

from engine import lib, observe, scen, xforms, zz9enc
from engine.cmp import close, is_root, roots_close
from engine.observe import Raised
from engine.oracle import Oracle, apparent_dims
from engine.runner import SubCheck
from props.c02 import _specs

PROPERTY = "C04"
RULE = (
    "(direct) random insertion lists (overlapping, stale, missing ids, both spellings, view "
    "or analysis) on either/both dimensions: every inserted cell's weighted/unweighted count "
    "is compared with the signed sum over respondents; differences NaN with valid counts; "
    "diff x diff NaN; own-direction base/proportion of a difference NaN; mean/median/stddev/"
    "index NaN for every subtotal. (merge) for a subtotal without subtrahends the survey is "
    "rewritten so that the addends ARE one category, re-encoded and analysed without the "
    "insertion; every measure of the subtotal vector must equal the merged category's. "
    "(wave) categorical-date dimension: 1-minus-1 difference = difference of percentages; "
    "several terms = NaN. Non-trivial: insertion with >=2 distinct valid addends and a "
    "non-zero cell (direct/merge); a difference involving the first category (wave)."
)
BOUNDS = "respondents 0..24, valid categories 2..5, items 1..3, insertions 1..3 per dimension"
ASSUMPTIONS = [
    "z-scores / p-values enter the merge equivalence only when both tables have exact "
    "rational rank >= 2 (the degenerate-table rule of C12 is table-wide)",
    "column index, means, medians, stddev are NaN for subtotals by the statement and are "
    "excluded from the equivalence",
    "multi-term wave differences: slice *table* proportions are not asserted",
]

SHAPES_DIRECT = [("cat", "cat")] * 3 + [("cat", "mr"), ("mr", "cat"), ("cat_date", "cat"),
                                          ("cat", "cat_date"), ("cai", "cac"), ("cac", "cai"),
                                          ("na", "cat"), ("cat", "cat", "cat"),
                                          ("mr", "cat", "cat"), ("cat", "text")]


# ------------------------------------------------------------------------------ direct
@st.composite
def direct_case_st(draw):
    sc = draw(scen.scenario_st(SHAPES_DIRECT, measure="maybe", min_valid=2, max_valid=5,
                               stats=["mean", "median", "stddev"]))
    tx, inforce = draw(xforms.slice_insertions_st(sc, where="either", max_ins=3,
                                                  allow_malformed=True))
    sc["transforms"] = tx
    sc["insertions"] = inforce
    return sc


def judge_direct(case, rec):
    sv, q = case["survey"], case["query"]
    resp = zz9enc.encode(sv, q)
    cube = lib.cube(resp, case["transforms"])
    dims = apparent_dims(sv, q)
    nd = len(dims)
    rec.event("shape=" + "x".join(case["shape"]))
    tkeys = dims[0].keys if nd == 3 else [None]
    measure = q.get("measure")
    has_valid_counts = bool(measure) and (measure.get("valid_counts", True)
                                          or sv["vars"][measure["var"]]["type"] == "numarr")
    for part, tkey in zip(cube.partitions, tkeys):
        orc = Oracle(sv, q, table_key=tkey)
        lib.warm(part, case.get("warmup"))
        rspecs, cspecs = _specs(part, orc, case)
        wc = np.asarray(part.counts, dtype=float)
        uc = np.asarray(part.unweighted_counts, dtype=float)
        nanmeasures = {}
        for name in ("column_index", "means", "medians", "stddev"):
            if name == "column_index" and orc.rows.kind == "numarr":
                continue  # not defined across numeric-array items (outside C16's domain)
            try:
                nanmeasures[name] = np.asarray(getattr(part, name), dtype=float)
            except ValueError:
                pass
        rwb = np.asarray(part.row_weighted_bases, dtype=float)
        cwb = np.asarray(part.column_weighted_bases, dtype=float)
        rp = np.asarray(part.row_proportions, dtype=float)
        cp = np.asarray(part.column_proportions, dtype=float)
        rows_cat_date = orc.rows.var.get("flavour") == "cat_date"
        cols_cat_date = orc.cols.var.get("flavour") == "cat_date"
        # every insertion that references at least one valid element (as addend OR as
        # subtrahend) is displayed, the others are skipped
        from engine import spec_order
        for which_, dim_, key_, specs_ in (("rows", orc.rows, "rows", rspecs),
                                           ("columns", orc.cols, "cols", cspecs)):
            if dim_.kind not in ("cat", "ca_cats"):
                continue
            want_names = [i["name"] for i in spec_order.valid_insertions(
                case["insertions"][key_], dim_.keys)]
            got_names = [s_[1] for s_ in specs_ if s_[0] == "sub"]
            rec.compared()
            if sorted(got_names) != sorted(want_names):
                rec.violation("%s: displayed insertions %r, definitions referencing a valid "
                              "element %r" % (which_, got_names, want_names),
                              "insertions-displayed")
        drows = tuple(i for i, s in enumerate(rspecs) if orc.is_diff(s))
        dcols = tuple(j for j, s in enumerate(cspecs) if orc.is_diff(s))
        rec.compared(2)
        if tuple(part.diff_row_idxs) != drows or tuple(part.diff_column_idxs) != dcols:
            rec.violation("diff_row_idxs/diff_column_idxs %r/%r, expected %r/%r" % (
                part.diff_row_idxs, part.diff_column_idxs, drows, dcols), "diff-idxs")
        for i, r_ in enumerate(rspecs):
            for j, c_ in enumerate(cspecs):
                if r_[0] == "el" and c_[0] == "el":
                    continue
                rd, cd = orc.is_diff(r_), orc.is_diff(c_)
                if len(set(r_[2]) if r_[0] == "sub" else ()) >= 2 or \
                        len(set(c_[2]) if c_[0] == "sub" else ()) >= 2:
                    if orc.count(r_, c_, False) != 0:
                        rec.nontrivial()
                if (rd and cd) or ((rd or cd) and has_valid_counts):
                    ew = eu = None
                else:
                    ew = orc.count(r_, c_, True)
                    eu = orc.count(r_, c_, False)
                rec.compared(2)
                if not close(wc[i, j], ew) or not close(uc[i, j], eu):
                    rec.violation(
                        "inserted cell [%d,%d] (row %r, col %r): counts %r / %r, signed sum "
                        "over respondents %r / %r" % (i, j, r_, c_, wc[i, j], uc[i, j], ew, eu),
                        "count")
                for name, arr in nanmeasures.items():
                    rec.compared()
                    if not np.isnan(arr[i, j]):
                        rec.violation("%s[%d,%d] = %r for a subtotal cell (must be NaN)" % (
                            name, i, j, arr[i, j]), "nan-" + name)
                if rd:
                    rec.compared(2)
                    if not np.isnan(rwb[i, j]):
                        rec.violation("row base of difference row [%d,%d] = %r" % (
                            i, j, rwb[i, j]), "diff-own-base")
                    if not rows_cat_date and not np.isnan(rp[i, j]):
                        rec.violation("row proportion of difference row [%d,%d] = %r" % (
                            i, j, rp[i, j]), "diff-own-proportion")
                if cd:
                    rec.compared(2)
                    if not np.isnan(cwb[i, j]):
                        rec.violation("column base of difference column [%d,%d] = %r" % (
                            i, j, cwb[i, j]), "diff-own-base")
                    if not cols_cat_date and not np.isnan(cp[i, j]):
                        rec.violation("column proportion of difference column [%d,%d] = %r" % (
                            i, j, cp[i, j]), "diff-own-proportion")


@st.composite
def direct_strand_case_st(draw):
    sc = draw(scen.scenario_st([("cat",), ("cat",), ("cat_date",), ("text",)], measure="maybe",
                               min_valid=2, max_valid=5, stats=["mean", "median", "stddev"]))
    tx, inforce = draw(xforms.slice_insertions_st(sc, where="either", max_ins=3))
    sc["transforms"] = tx
    sc["insertions"] = inforce
    return sc


def judge_direct_strand(case, rec):
    sv, q = case["survey"], case["query"]
    resp = zz9enc.encode(sv, q)
    part = lib.cube(resp, case["transforms"]).partitions[0]
    lib.warm(part, case.get("warmup"))
    orc = Oracle(sv, q)
    rec.event("shape=" + "x".join(case["shape"]))
    rspecs = lib.display_specs(part.row_order(), part.row_labels, orc.rows,
                               case["insertions"]["rows"])
    wc = np.asarray(part.counts, dtype=float)
    uc = np.asarray(part.unweighted_counts, dtype=float)
    measure = q.get("measure")
    has_valid_counts = bool(measure) and measure.get("valid_counts", True)
    nanm = {}
    for name in ("means", "medians", "stddev"):
        try:
            nanm[name] = np.asarray(getattr(part, name), dtype=float)
        except ValueError:
            pass
    drows = tuple(i for i, s in enumerate(rspecs) if orc.is_diff(s))
    if tuple(part.diff_row_idxs) != drows:
        rec.violation("strand diff_row_idxs %r, expected %r" % (part.diff_row_idxs, drows),
                      "diff-idxs1")
    ins_rows = tuple(i for i, s in enumerate(rspecs) if s[0] == "sub")
    if tuple(part.inserted_row_idxs) != ins_rows:
        rec.violation("strand inserted_row_idxs %r, expected %r" % (
            part.inserted_row_idxs, ins_rows), "inserted-idxs1")
    for i, s in enumerate(rspecs):
        if s[0] == "el":
            continue
        if len(set(s[2])) >= 2 and orc.count1(s, False) != 0:
            rec.nontrivial()
        if orc.is_diff(s) and has_valid_counts:
            ew = eu = None
        else:
            ew, eu = orc.count1(s, True), orc.count1(s, False)
        rec.compared(2)
        if not close(wc[i], ew) or not close(uc[i], eu):
            sig = "count1"
            if orc.is_diff(s) and has_valid_counts and close(wc[i], orc.count1(s, True)) \
                    and close(uc[i], orc.count1(s, False)):
                sig = "strand-diff-count-with-valid-counts"
            rec.violation("strand inserted row %d (%r): counts %r / %r, respondents %r / %r" % (
                i, s, wc[i], uc[i], ew, eu), sig)
        for name, arr in nanm.items():
            if not np.isnan(arr[i]):
                rec.violation("strand %s[%d] = %r for a subtotal" % (name, i, arr[i]),
                              "nan1-" + name)


# ------------------------------------------------------------------------------ merge
MERGE_SHAPES = [("cat", "cat")] * 4 + [("cat", "mr"), ("mr", "cat"), ("cat_date", "cat"),
                                         ("cat", "cat_date"), ("cai", "cac"), ("cac", "cai"),
                                         ("cat", "text"), ("numeric", "cat")]

EXCLUDED = {
    "column_index", "smoothed_column_index", "means", "medians", "stddev", "smoothed_means",
    # identity / labels of the vector differ by construction
    "row_labels", "column_labels", "row_codes", "column_codes", "row_aliases",
    "column_aliases", "rows_dimension_fills",
    # smoothing is a time series over the date axis: merging periods changes the series
    "smoothed_column_percentages", "smoothed_column_proportions", "smoothed_columns_scale_mean",
    # sums / shares are not in the statement's list (NaN addends make them encoder-dependent);
    # share of sum is C15's business
    "sums", "row_share_sum", "column_share_sum", "total_share_sum",
    # legacy helpers computed from the assembled slice (see C05 known finding)
    "summary_pairwise_indices", "columns_scale_mean_pairwise_indices",
    "columns_scale_mean_pairwise_indices_alt", "pairwise_significance_tests",
}


# row / column proportions (and what is derived from them): the only outputs the
# wave-difference rule touches
_WAVE = {"%s_%s" % (d, m) for d in ("row", "column")
         for m in ("proportions", "percentages", "proportion_variances", "std_dev", "std_err",
                   "proportions_moe")} | {"population_counts", "population_counts_moe",
                                          "population_proportions", "population_std_err"}
WAVE_FAMILY = {0: _WAVE, 1: _WAVE}


@st.composite
def merge_case_st(draw):
    sc = draw(scen.scenario_st(MERGE_SHAPES, measure="maybe", min_valid=2, max_valid=5,
                               stats=["mean", "sum"], allow_order_key=False,
                               weight_kinds=("none", "int", "dyadic")))
    sv, q = sc["survey"], sc["query"]
    cands = []
    for k, d in enumerate(q["dims"]):
        var = sv["vars"][d["var"]]
        if (var["type"] == "cat" and var["flavour"] in ("cat", "cat_date", "text", "numeric")) \
                or (var["type"] == "ca" and d.get("part") == "cats"):
            cands.append(k)
    which = draw(st.sampled_from(cands))
    d = q["dims"][which]
    var = sv["vars"][d["var"]]
    valid = [c["id"] for c in var["cats"] if not c["missing"]]
    adds = draw(st.lists(st.sampled_from(valid), min_size=1, max_size=len(valid), unique=True))
    if len(adds) == 1 and len(valid) > 1 and draw(st.booleans()):
        adds.append([v for v in valid if v not in adds][0])
    noise = draw(st.lists(st.sampled_from([c["id"] for c in var["cats"] if c["missing"]] + [97]),
                          max_size=1))
    ins = {"function": "subtotal", "name": "MERGED", "anchor": draw(st.sampled_from(
        ["top", "bottom", valid[0]])), "id": 1}
    if draw(st.booleans()):
        ins["args"] = adds + noise
    else:
        ins["kwargs"] = {"positive": adds + noise}
    sc["which"] = which
    sc["adds"] = adds
    sc["insertion"] = ins
    # --- opposing dimension may carry a plain subtotal too (same in both runs)
    other = q["dims"][1 - which]
    ovar = sv["vars"][other["var"]]
    sc["other_ins"] = []
    if xforms.can_insert(ovar, other.get("part")) and ovar.get("flavour") != "datetime" \
            and draw(st.booleans()):
        ov, om = xforms.dim_ids(ovar, other.get("part"))
        sc["other_ins"] = draw(xforms.insertions_st(ov, om, max_ins=2, allow_diff=True,
                                                    allow_malformed=False, with_id=True))
    sc["alpha"] = draw(st.sampled_from([None, [0.4, 0.7]]))
    sc["population"] = draw(st.sampled_from([None, 500]))
    # a second subtotal on the SAME axis spanning every valid category ("Total"), present
    # in both runs: the subtotal under test then shares its block with another insertion
    sc["with_total"] = draw(st.booleans())
    return sc


def merged_survey(sv, alias, adds):
    sv2 = copy.deepcopy(sv)
    var = sv2["vars"][alias]
    first = min(i for i, c in enumerate(var["cats"]) if c["id"] in adds)
    mid = var["cats"][first]["id"]
    keep = []
    for i, c in enumerate(var["cats"]):
        if c["id"] in adds and i != first:
            continue
        if i == first:
            c = dict(c)
            c["name"] = "MERGED"
            c["value"] = None
            # the merged variable keeps its categorical-date nature
            dates = [x["date"] for x in var["cats"] if x["id"] in adds and "date" in x]
            if dates:
                c["date"] = dates[0]
        keep.append(c)
    var["cats"] = keep
    if var["type"] == "cat":
        var["answers"] = [mid if a in adds else a for a in var["answers"]]
    else:
        var["answers"] = [[mid if a in adds else a for a in row] for row in var["answers"]]
    return sv2, mid


def exact_rank(rows):
    """Rank of a small matrix of ints / dyadic floats, over the rationals."""
    m = [[Fraction(x).limit_denominator(1 << 20) for x in r] for r in rows]
    rank = 0
    ncols = len(m[0]) if m else 0
    for c in range(ncols):
        piv = None
        for r in range(rank, len(m)):
            if m[r][c] != 0:
                piv = r
                break
        if piv is None:
            continue
        m[rank], m[piv] = m[piv], m[rank]
        for r in range(len(m)):
            if r != rank and m[r][c] != 0:
                f = m[r][c] / m[rank][c]
                m[r] = [a - f * b for a, b in zip(m[r], m[rank])]
        rank += 1
    return rank


def _base_rank(orc):
    rows = [[orc.count(("el", rk), ("el", ck), True) for ck in orc.cols.keys]
            for rk in orc.rows.keys]
    if not rows or not rows[0]:
        return 0
    return exact_rank(rows)


def judge_merge(case, rec):
    sv, q = case["survey"], case["query"]
    which = case["which"]
    axis_name = ["rows_dimension", "columns_dimension"][which]
    other_name = ["rows_dimension", "columns_dimension"][1 - which]
    alias = q["dims"][which]["var"]
    tA = {axis_name: {"insertions": [case["insertion"]]}}
    tM = {}
    sv2, mid = merged_survey(sv, alias, case["adds"])
    if case.get("with_total"):
        def total(svx):
            var = svx["vars"][alias]
            return {"function": "subtotal", "name": "TOTAL", "anchor": "bottom", "id": 2,
                    "args": [c["id"] for c in var["cats"] if not c["missing"]]}
        tA[axis_name]["insertions"] = [case["insertion"], total(sv)]
        tM[axis_name] = {"insertions": [total(sv2)]}
    if case["other_ins"]:
        tA[other_name] = {"insertions": case["other_ins"]}
        tM[other_name] = {"insertions": case["other_ins"]}
    if case["alpha"]:
        tA["pairwise_indices"] = {"alpha": case["alpha"], "only_larger": False}
        tM["pairwise_indices"] = {"alpha": case["alpha"], "only_larger": False}
    A = lib.cube(zz9enc.encode(sv, q), tA, population=case["population"]).partitions[0]
    M = lib.cube(zz9enc.encode(sv2, q), tM, population=case["population"]).partitions[0]
    lib.warm(A, case.get("warmup"))
    lib.warm(M, case.get("warmup"))
    oA, oM = Oracle(sv, q), Oracle(sv2, q)
    rec.event("shape=" + "x".join(case["shape"]))
    rec.event("axis=%d" % which)
    dimA = oA.rows if which == 0 else oA.cols
    dimM = oM.rows if which == 0 else oM.cols
    # --- positions of the subtotal (A) and of the merged category (M) along the axis
    ordA = [int(x) for x in (A.row_order() if which == 0 else A.column_order())]
    ordM = [int(x) for x in (M.row_order() if which == 0 else M.column_order())]
    n_ins = 2 if case.get("with_total") else 1
    if sum(1 for x in ordA if x < 0) != n_ins:
        rec.violation("expected %d inserted vector(s), order %r" % (n_ins, ordA), "merge-setup")
        return
    labelsA = [str(x) for x in (A.row_labels if which == 0 else A.column_labels)]
    pA = labelsA.index("MERGED")
    pM = ordM.index(dimM.keys.index(mid))
    # --- correspondence of the other vectors along the axis (non-addend base elements)
    corr = []  # (posA, posM)
    for p, x in enumerate(ordA):
        if x >= 0 and dimA.keys[x] not in case["adds"]:
            corr.append((p, ordM.index(dimM.keys.index(dimA.keys[x]))))
    if len(set(case["adds"])) >= 2:
        tot = sum(oA.count(("el", a), ("el", ck), False) if which == 0 else
                  oA.count(("el", rk), ("el", a), False)
                  for a in case["adds"]
                  for ck in (oA.cols.keys if which == 0 else [None])
                  for rk in (oA.rows.keys if which == 1 else [None]))
        if tot:
            rec.nontrivial()
    both_rank2 = _base_rank(oA) >= 2 and _base_rank(oM) >= 2
    inexact = bool(q.get("weighted")) and bool(sv["weights"]) and any(
        float(w * 8) != int(w * 8) for w in sv["weights"])
    # display positions, along the OPPOSING axis, of differences on a categorical-date
    # dimension (same insertions and order in both runs)
    wave_pos = []
    odim = oA.cols if which == 0 else oA.rows
    if odim.var.get("flavour") == "cat_date" and case["other_ins"]:
        ospecs = lib.display_specs(A.column_order() if which == 0 else A.row_order(),
                                   A.column_labels if which == 0 else A.row_labels, odim,
                                   case["other_ins"])
        wave_pos = [k for k, sp in enumerate(ospecs) if oA.is_diff(sp)]
    opp_array = (oA.cols if which == 0 else oA.rows).is_array
    sA = observe.snapshot(A)
    sM = observe.snapshot(M)
    for name in sorted(sA):
        kind = observe.SLICE_KINDS.get(name)
        if name in EXCLUDED or kind is None:
            continue
        if name in ("zscores", "pvals", "pvalues", "residual_test_stats") and not both_rank2:
            continue
        if inexact and "scale_median" in name:
            continue  # a median is stated "for integer counts": exact 50 % ties are rounding
        vA, vM = sA[name], sM[name]
        if isinstance(vA, Raised) or isinstance(vM, Raised):
            if isinstance(vA, Raised) != isinstance(vM, Raised):
                if name in ("rows_margin_proportion", "columns_margin_proportion") and opp_array:
                    rec.violation("%s raises with an insertion" % name,
                                  "margin-proportion-2d-double-assembly")
                    continue
                rec.violation("%s: with subtotal %r, merged data %r" % (name, vA, vM),
                              "merge-raise-" + name)
            continue
        own = {0: ("M", "M2", "R", "RM"), 1: ("M", "M2", "C", "CM")}[which]
        if kind not in own:
            continue
        if vA is None or vM is None:
            if (vA is None) != (vM is None):
                rec.violation("%s: with subtotal %r, merged data %r" % (name, vA, vM),
                              "merge-none-" + name)
            continue
        if kind == "RM":
            kind = "R" if np.asarray(vA).ndim == 1 else "M"
        if kind == "CM":
            kind = "C" if np.asarray(vA).ndim == 1 else "M"
        a = m = None
        if kind == "M":
            a = np.asarray(vA, dtype=float)
            m = np.asarray(vM, dtype=float)
            a, m = (a[pA, :], m[pM, :]) if which == 0 else (a[:, pA], m[:, pM])
        elif kind == "M2":
            a = np.asarray(vA, dtype=float)
            m = np.asarray(vM, dtype=float)
            a, m = (a[:, pA, :], m[:, pM, :]) if which == 0 else (a[:, :, pA], m[:, :, pM])
        elif (kind == "R" and which == 0) or (kind == "C" and which == 1):
            try:
                a = np.asarray(vA, dtype=float)[pA]
                m = np.asarray(vM, dtype=float)[pM]
            except (TypeError, ValueError):
                continue
        else:
            continue
        rec.compared()
        sig = "merge-" + name
        if name in ("rows_margin_proportion", "columns_margin_proportion") and opp_array:
            sig = "margin-proportion-2d-double-assembly"
        if not _vec_close(a, m) and wave_pos and name in WAVE_FAMILY[which] and \
                np.ndim(a) == 1 and np.shape(a) == np.shape(m) and \
                _vec_close(np.delete(a, wave_pos), np.delete(m, wave_pos)):
            # differs ONLY where the subtotal meets a difference on the opposing
            # categorical-date dimension
            sig = "subtotal-x-wave-difference-intersection"
        if not _vec_close(a, m) and not (is_root(name) and roots_close(
                a, m, 2.0 * (case["population"] or 1) if name.startswith("population") else 1.0)):
            rec.violation(
                "%s of the subtotal %r differs from the merged category: %r vs %r (axis %d)"
                % (name, case["adds"], np.asarray(a).tolist(), np.asarray(m).tolist(), which),
                sig)
    # --- pairwise column tests: subtotal as compared and as selected column
    if which == 1 and not oA.cols.is_array:
        for fn in ("pairwise_significance_t_stats", "pairwise_significance_p_vals"):
            try:
                selA = np.asarray(getattr(A, fn)(pA), dtype=float)
                selM = np.asarray(getattr(M, fn)(pM), dtype=float)
            except Exception:  # noqa - unavailable for this pairing
                break
            for (qa, qm) in corr + [(pA, pM)]:
                rec.compared()
                va_, vm_ = selA[:, qa], selM[:, qm]
                if inexact and qa == pA:
                    # a column against itself: t = 0 unless the standard error is 0 (0/0 =
                    # NaN); with weights that are not exactly representable a standard
                    # error of "0" is 0 or 1e-9 by rounding, differently in the two runs
                    neutral = 0.0 if fn.endswith("t_stats") else 1.0   # t = 0, p = 1
                    keep = ~((np.isnan(va_) & (np.nan_to_num(vm_, nan=-9.0) == neutral))
                             | (np.isnan(vm_) & (np.nan_to_num(va_, nan=-9.0) == neutral)))
                    va_, vm_ = va_[keep], vm_[keep]
                if not _vec_close(va_, vm_):
                    rec.violation("%s(selected=subtotal)[:, %d] %r vs merged %r" % (
                        fn, qa, selA[:, qa].tolist(), selM[:, qm].tolist()),
                        _wave_sig(selA[:, qa], selM[:, qm], wave_pos, "merge-" + fn))
            for (qa, qm) in corr:
                ca = np.asarray(getattr(A, fn)(qa), dtype=float)[:, pA]
                cm = np.asarray(getattr(M, fn)(qm), dtype=float)[:, pM]
                rec.compared()
                if not _vec_close(ca, cm):
                    rec.violation("%s(selected=%d)[:, subtotal] %r vs merged %r" % (
                        fn, qa, ca.tolist(), cm.tolist()),
                        _wave_sig(ca, cm, wave_pos, "merge-" + fn))


def _wave_sig(a, m, wave_pos, default):
    """Known-finding signature when `a` and `m` differ ONLY where the subtotal meets a
    difference on the opposing categorical-date dimension (column tests are built on the
    column proportions of those cells)."""
    a, m = np.asarray(a, dtype=float), np.asarray(m, dtype=float)
    if wave_pos and a.ndim == 1 and a.shape == m.shape and \
            _vec_close(np.delete(a, wave_pos), np.delete(m, wave_pos)):
        return "subtotal-x-wave-difference-intersection"
    return default


def _vec_close(a, b):
    a = np.atleast_1d(np.asarray(a, dtype=float))
    b = np.atleast_1d(np.asarray(b, dtype=float))
    if a.shape != b.shape:
        return False
    return all(close(x, y) for x, y in zip(a.ravel().tolist(), b.ravel().tolist()))


# ------------------------------------------------------------------------------ wave
@st.composite
def wave_case_st(draw):
    shape = draw(st.sampled_from([("cat_date", "cat"), ("cat", "cat_date"), ("cat_date", "mr"),
                                  ("cat_date",), ("cat_date", "cat_date")]))
    sc = draw(scen.scenario_st([shape], measure="none", min_valid=2, max_valid=5,
                               allow_order_key=False))
    sv, q = sc["survey"], sc["query"]
    which = [k for k, t in enumerate(shape) if t == "cat_date"][0]
    var = sv["vars"][q["dims"][which]["var"]]
    valid = [c["id"] for c in var["cats"] if not c["missing"]]
    # --- bias towards the first category being involved
    pool = valid + [valid[0]] * 2
    adds = draw(st.lists(st.sampled_from(pool), min_size=1, max_size=3, unique=True))
    subs = draw(st.lists(st.sampled_from(pool), min_size=1, max_size=2, unique=True))
    ins = {"function": "subtotal", "name": "WAVE", "anchor": "bottom", "id": 1,
           "kwargs": {"positive": adds, "negative": subs}}
    sc["which"] = which
    sc["adds"], sc["subs"] = adds, subs
    sc["insertion"] = ins
    return sc


def judge_wave(case, rec):
    sv, q = case["survey"], case["query"]
    which = case["which"]
    strand = len(case["shape"]) == 1
    axis_name = ["rows_dimension", "columns_dimension"][which]
    part = lib.cube(zz9enc.encode(sv, q), {axis_name: {"insertions": [case["insertion"]]}}
                    ).partitions[0]
    lib.warm(part, case.get("warmup"))
    orc = Oracle(sv, q)
    rec.event("shape=" + "x".join(case["shape"]))
    adds, subs = case["adds"], case["subs"]
    dim = orc.rows if which == 0 else orc.cols
    if dim.keys[0] in adds + subs:
        rec.nontrivial()
        rec.event("first category involved")
    multi = len(adds) > 1 or len(subs) > 1
    rec.event("multi-term" if multi else "one-minus-one")
    if strand:
        order = [int(x) for x in part.row_order()]
        p = [k for k, x in enumerate(order) if x < 0][0]
        tp = np.asarray(part.table_proportions, dtype=float)
        if multi:
            want = None
        else:
            b = orc.base1(("el", None), True)
            want = None if b == 0 else (orc.count1(("el", adds[0]), True)
                                        - orc.count1(("el", subs[0]), True)) / b
            # a strand's table proportion of a wave difference: difference of percentages
        rec.compared()
        if not close(tp[p], want):
            rec.violation("strand table proportion of wave difference %r-%r = %r, expected %r"
                          % (adds, subs, tp[p], want),
                          "wave-multi" if multi else "wave-single")
        return
    order = [int(x) for x in (part.row_order() if which == 0 else part.column_order())]
    p = [k for k, x in enumerate(order) if x < 0][0]
    other = orc.cols if which == 0 else orc.rows
    props = {"row_proportions": orc.row_base, "column_proportions": orc.col_base}
    for name, basefn in props.items():
        P = np.asarray(getattr(part, name), dtype=float)
        for k, ok in enumerate(other.keys):
            got = P[p, k] if which == 0 else P[k, p]
            if multi:
                want = None
            else:
                def pct(key):
                    rs, cs = (("el", key), ("el", ok)) if which == 0 else (("el", ok), ("el", key))
                    b = basefn(rs, cs, True)
                    return None if b == 0 else orc.count(rs, cs, True) / b
                pa, pb = pct(adds[0]), pct(subs[0])
                want = None if pa is None or pb is None else pa - pb
            rec.compared()
            if not close(got, want):
                rec.violation(
                    "%s of wave difference +%r -%r at opposing element %r = %r, expected %r"
                    % (name, adds, subs, ok, got, want),
                    "wave-multi" if multi else "wave-single")
    # --- "NaN in EVERY proportion" for a several-term difference includes the table direction
    if multi:
        P = np.asarray(part.table_proportions, dtype=float)
        vec = P[p, :] if which == 0 else P[:, p]
        rec.compared()
        if not np.all(np.isnan(vec)):
            rec.violation("table_proportions of the several-term wave difference +%r -%r = %r, "
                          "expected NaN like its row / column proportions (and like the strand "
                          "of the same variable)" % (adds, subs, vec.tolist()),
                          "wave-multi-table-proportion")


# ------------------------------------------------------- only WEIGHTED valid counts present
@st.composite
def weighted_valid_only_case_st(draw):
    """A weighted numeric-measure response that carries valid_count_weighted but no
    valid_count_unweighted (the shape of the fixture mr-mean-weighted.json)."""
    sc = draw(scen.scenario_st([("cat", "cat"), ("cat", "cat"), ("cat_date", "cat"),
                                ("cat", "mr"), ("cat", "cat", "cat")],
                               measure="always", stats=["mean"], min_valid=2, max_valid=4,
                               min_n=3, weight_kinds=("int", "dyadic")))
    sc["query"]["weighted"] = True
    sc["query"]["measure"]["valid_counts"] = True
    tx, inforce = draw(xforms.slice_insertions_st(sc, where="either", max_ins=3,
                                                  allow_malformed=False))
    sc["transforms"] = tx
    sc["insertions"] = inforce
    return sc


def judge_weighted_valid_only(case, rec):
    sv, q = case["survey"], case["query"]
    resp = zz9enc.encode(sv, q)
    if "valid_count_weighted" not in resp["result"]["measures"]:
        return
    resp["result"]["measures"].pop("valid_count_unweighted", None)
    cube = lib.cube(resp, case["transforms"])
    dims = apparent_dims(sv, q)
    rec.event("shape=" + "x".join(case["shape"]))
    tkeys = dims[0].keys if len(dims) == 3 else [None]
    for part, tkey in zip(cube.partitions, tkeys):
        orc = Oracle(sv, q, table_key=tkey)
        lib.warm(part, case.get("warmup"))
        rspecs, cspecs = _specs(part, orc, case)
        wc = np.asarray(part.counts, dtype=float)
        for i, r_ in enumerate(rspecs):
            for j, c_ in enumerate(cspecs):
                rd, cd = orc.is_diff(r_), orc.is_diff(c_)
                if (rd or cd) and not (dims[-2].var.get("flavour") == "cat_date" and rd) \
                        and not (dims[-1].var.get("flavour") == "cat_date" and cd):
                    rec.nontrivial()
                    rec.compared()
                    if not np.isnan(wc[i, j]):
                        rec.violation(
                            "the response carries (weighted) valid counts, yet the count of the "
                            "difference cell [%d,%d] (row %r, col %r) is %r, not NaN" % (
                                i, j, r_, c_, wc[i, j]), "diff-count-weighted-valid-only")
                elif not (rd or cd):
                    rec.compared()
                    if not close(wc[i, j], orc.count(r_, c_, True)):
                        rec.violation("count [%d,%d] = %r, weighted valid respondents %r" % (
                            i, j, wc[i, j], orc.count(r_, c_, True)), "count-weighted-valid-only")


SUBCHECKS = [
    SubCheck("direct", direct_case_st(), judge_direct, quick=6000, thorough=80000),
    SubCheck("direct-strand", direct_strand_case_st(), judge_direct_strand, quick=1200,
             thorough=20000),
    SubCheck("merge", merge_case_st(), judge_merge, quick=6000, thorough=80000),
    SubCheck("wave", wave_case_st(), judge_wave, quick=4000, thorough=40000),
    SubCheck("weighted-valid-only", weighted_valid_only_case_st(), judge_weighted_valid_only,
             quick=800, thorough=8000),
]
