"""C01 - cell values are faithful tabulations of the survey behind the response."""
import itertools

import numpy as np

from engine import lib, scen, zz9enc
from engine.cmp import close
from engine.oracle import Oracle, apparent_dims, element_specs
from engine.runner import SubCheck

PROPERTY = "C01"
RULE = (
    "Hypothesis draws a respondent-level survey (answers x weights), a dimension pairing "
    "(0-D..3-D, every supported type) and a measure set; the encoder tabulates it; every "
    "cell of every partition is compared with set-membership sums over respondents. "
    "Non-trivial: a missing category that is not last in the payload, or an MR/array "
    "dimension, or a non-unit weight in use, or an unavailable (NaN) numeric cell. Distinct "
    "= distinct case JSON (sha1)."
)
BOUNDS = "respondents 0..24, valid categories 1..4 (+0..2 missing anywhere), items 1..3"
ASSUMPTIONS = [
    "encoder lays data out in C order over result.dimensions (numeric-array items as a "
    "trailing axis); validated by the unchanged tree agreeing and by fixture round-trips",
    "CA categories as *table* dimension and X x NUM_ARRAY are not generated",
]

ALL_SHAPES = scen.SHAPES_2D * 2 + scen.SHAPES_NA + scen.SHAPES_NA3 + scen.SHAPES_1D + \
    scen.SHAPES_3D + [()]


def _is_nontrivial(case):
    sv, q = case["survey"], case["query"]
    if q.get("weighted") and sv["weights"] and any(w != 1 for w in sv["weights"]):
        return True
    for d in q["dims"]:
        var = sv["vars"][d["var"]]
        if var["type"] in ("mr", "ca"):
            return True
        cats = var["cats"]
        if any(c["missing"] for c in cats[:-1]):
            return True
    return bool(q.get("measure"))


def _stat_pairs(orc, members, rspec):
    out = []
    for r in members:
        x = orc.xvalue(r, rspec)
        if x is not None:
            out.append((orc.w(r, True), x))
    return out


def judge(case, rec):
    sv, q = case["survey"], case["query"]
    resp = zz9enc.encode(sv, q)
    cube = lib.cube(resp)
    dims = apparent_dims(sv, q)
    nd = len(dims)
    rec.event("ndim=%d" % nd)
    rec.event("shape=" + "x".join(case["shape"]))
    rec.nontrivial(_is_nontrivial(case))
    parts = cube.partitions
    for _p in parts:
        lib.warm(_p, case.get("warmup")) if nd else None
    measure = q.get("measure")
    stats = measure["stats"] if measure else []
    attr = {"mean": "means", "sum": "sums", "stddev": "stddev", "median": "medians"}

    if nd == 0:
        nub = parts[0]
        orc = Oracle(sv, q)
        members = [r for r in range(sv["n"])]
        pairs = [(orc.w(r), sv["vars"]["x"]["values"][r]) for r in members
                 if sv["vars"]["x"]["values"][r] is not None]
        if "mean" in stats:
            exp = zz9enc.numeric_stat("mean", pairs)
            got = nub.means
            rec.compared()
            if not close(np.asarray(got).item() if got is not None else None, exp):
                rec.violation("0-D mean %r != %r" % (got, exp), "nub-mean")
        exp_n = len(pairs) if measure.get("valid_counts", True) else sv["n"]
        rec.compared()
        if not close(np.asarray(nub.unweighted_count).item(), exp_n):
            rec.violation("0-D unweighted_count %r != %r" % (nub.unweighted_count, exp_n),
                          "nub-count")
        return

    tkeys = dims[0].keys if nd == 3 else [None]
    if len(parts) != len(tkeys):
        rec.violation("%d partitions for %d valid table elements" % (len(parts), len(tkeys)),
                      "npartitions")
        return
    for part, tkey in zip(parts, tkeys):
        orc = Oracle(sv, q, table_key=tkey)
        rspecs = element_specs(orc.rows)
        if nd == 1:
            _check_strand(part, orc, rspecs, stats, attr, rec)
            continue
        cspecs = element_specs(orc.cols)
        shape = tuple(part.shape)
        if shape != (len(rspecs), len(cspecs)):
            rec.violation("shape %r, expected %r" % (shape, (len(rspecs), len(cspecs))), "shape")
            continue
        if list(part.row_labels) != orc.rows.labels() or list(part.column_labels) != orc.cols.labels():
            rec.violation("labels %r / %r != %r / %r" % (
                list(part.row_labels), list(part.column_labels), orc.rows.labels(),
                orc.cols.labels()), "labels")
        if [str(x) for x in part.row_codes] != [str(x) for x in orc.rows.element_ids()] or \
                [str(x) for x in part.column_codes] != [str(x) for x in orc.cols.element_ids()]:
            rec.violation("codes %r / %r" % (list(part.row_codes), list(part.column_codes)),
                          "codes")
        wc = part.counts
        uc = part.unweighted_counts
        vals = {}
        for kind in stats:
            vals[kind] = getattr(part, attr[kind])
        for i, rs in enumerate(rspecs):
            for j, cs in enumerate(cspecs):
                ew = orc.count(rs, cs, True)
                eu = orc.count(rs, cs, False)
                rec.compared(2)
                if not close(wc[i, j], ew):
                    rec.violation("weighted count [%d,%d] = %r, respondents give %r" % (
                        i, j, wc[i, j], ew), "wcount")
                if not close(uc[i, j], eu):
                    rec.violation("unweighted count [%d,%d] = %r, respondents give %r" % (
                        i, j, uc[i, j], eu), "ucount")
                if stats:
                    pairs = _stat_pairs(orc, orc.cell_members(rs, cs), rs)
                    for kind in stats:
                        exp = zz9enc.numeric_stat(kind, pairs)
                        rec.compared()
                        if exp is None:
                            rec.nontrivial()
                        if not close(vals[kind][i, j], exp):
                            rec.violation("%s [%d,%d] = %r, response carries %r" % (
                                kind, i, j, vals[kind][i, j], exp), "stat-" + kind)
    _check_cube_level(cube, sv, q, dims, rec)


def _check_strand(part, orc, rspecs, stats, attr, rec):
    if tuple(part.shape) != (len(rspecs),):
        rec.violation("strand shape %r, expected %d" % (part.shape, len(rspecs)), "shape1")
        return
    if list(part.row_labels) != orc.rows.labels():
        rec.violation("strand labels %r != %r" % (list(part.row_labels), orc.rows.labels()),
                      "labels1")
    wc, uc = part.counts, part.unweighted_counts
    vals = {kind: getattr(part, attr[kind]) for kind in stats}
    for i, rs in enumerate(rspecs):
        ew, eu = orc.count1(rs, True), orc.count1(rs, False)
        rec.compared(2)
        if not close(wc[i], ew):
            rec.violation("strand weighted count [%d] = %r, respondents give %r" % (i, wc[i], ew),
                          "wcount1")
        if not close(uc[i], eu):
            rec.violation("strand unweighted count [%d] = %r, respondents give %r" % (
                i, uc[i], eu), "ucount1")
        if stats:
            pairs = _stat_pairs(orc, orc.members1(rs), rs)
            for kind in stats:
                exp = zz9enc.numeric_stat(kind, pairs)
                rec.compared()
                if exp is None:
                    rec.nontrivial()
                if not close(vals[kind][i], exp):
                    rec.violation("strand %s [%d] = %r, response carries %r" % (
                        kind, i, vals[kind][i], exp), "stat1-" + kind)


def _check_cube_level(cube, sv, q, dims, rec):
    """Cube.counts / unweighted_counts over valid raw elements incl. the MR state axis."""
    m = q.get("measure")
    if m and (sv["vars"][m["var"]]["type"] == "numarr" or m.get("valid_counts", True)):
        return  # valid-count substitution is covered through the partitions
    want_means = bool(m) and "mean" in m["stats"]
    W = sv["weights"] if q.get("weighted") else None
    # --- raw axes: (predicate builder, keys)
    axes = []
    for d in q["dims"]:
        var = sv["vars"][d["var"]]
        if var["type"] == "cat":
            od = [x for x in dims if x.var is var][0]
            axes.append(("cat", var, od.keys))
        elif var["type"] == "mr":
            axes.append(("mr_items", var, list(range(len(var["items"])))))
            axes.append(("mr_sel", var, [1, 0]))
        else:
            od = [x for x in dims if x.var is var and x.kind == "ca_cats"]
            if d.get("part") == "items":
                axes.append(("ca_items", var, list(range(len(var["items"])))))
            else:
                axes.append(("ca_cats", var, od[0].keys))
    got_w = np.asarray(cube.counts)
    got_u = np.asarray(cube.unweighted_counts)
    if got_w.ndim == 0:
        return
    exp_shape = tuple(len(a[2]) for a in axes)
    if got_u.shape != exp_shape:
        rec.violation("Cube.unweighted_counts shape %r != %r" % (got_u.shape, exp_shape),
                      "cube-shape")
        return
    for idx in itertools.product(*[range(len(a[2])) for a in axes]):
        sel = {}
        for (role, var, keys), i in zip(axes, idx):
            sel.setdefault(var["alias"], {})[role] = keys[i]
        tw = tu = 0
        pairs = []
        for r in range(sv["n"]):
            ok = True
            for alias, roles in sel.items():
                var = sv["vars"][alias]
                if var["type"] == "cat":
                    ok = var["answers"][r] == roles["cat"]
                elif var["type"] == "mr":
                    ok = var["answers"][r][roles["mr_items"]] == roles["mr_sel"]
                else:
                    ok = var["answers"][r][roles["ca_items"]] == roles["ca_cats"] \
                        if "ca_cats" in roles else True
                if not ok:
                    break
            if ok:
                tu += 1
                tw += 1 if W is None else W[r]
                if want_means and sv["vars"]["x"]["values"][r] is not None:
                    pairs.append((1 if W is None else W[r], sv["vars"]["x"]["values"][r]))
        if want_means:
            gm = np.asarray(cube.means)[idx]
            em = zz9enc.numeric_stat("mean", pairs)
            rec.compared()
            if not close(gm, em):
                rec.violation("Cube.means%r = %r, response carries %r" % (idx, gm, em),
                              "cube-means")
        rec.compared(2)
        if not close(got_u[idx], tu) or not close(got_w[idx], tw):
            rec.violation("Cube counts%r = %r/%r, respondents give %r/%r" % (
                idx, got_w[idx], got_u[idx], tw, tu), "cube-counts")


SUBCHECKS = [
    SubCheck("cells", scen.scenario_st(ALL_SHAPES, weight_kinds=scen.WEIGHTS_INEXACT), judge, quick=2400, thorough=40000),
]
