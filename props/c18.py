"""C18 - results are a pure function of the arguments, whatever the access history."""
import copy
import json
import os
import threading

import hypothesis
import numpy as np
from hypothesis import HealthCheck, Phase, settings
from hypothesis import strategies as st
from hypothesis.stateful import (RuleBasedStateMachine, initialize, invariant, precondition,
                                 rule, run_state_machine_as_test)

from engine import lib, observe, scen, xforms, zz9enc
from engine import survey as S
from engine.cmp import close, jsonable
from engine.observe import Raised
from engine.runner import SubCheck, Violation, classify_exception

PROPERTY = "C18"
RULE = (
    "Hypothesis rule-based state machine: a pool of SHARED argument objects (one response as "
    "dict, as JSON text and inside a {'value': ...} envelope; one transforms dict) from which "
    "cubes and cube sets are built repeatedly; rules read any public property (or pairwise / "
    "order method) of any partition of any cube in any order, re-read it, or build further "
    "cubes on the same dictionaries. After every step the value read must equal the reference "
    "value computed once from pristine deep copies by a fresh cube used for that single "
    "property; a read raises iff the reference raised the same exception type. Scenarios are "
    "biased to array dimensions with non-alias spellings and stale references, 3-D cubes with "
    "MR columns, numeric-summary and CA-as-0th cube sets. Non-trivial: a history with an "
    "argument object shared by >= 2 cubes and >= 10 reads."
)
BOUNDS = "histories up to 40 steps; respondents 0..16; <=4 cubes per history"
ASSUMPTIONS = [
    "thread schedules are only sampled (thorough tier: 8 threads reading one cube); a race can "
    "be found but never excluded by this technique",
]

FORMS = ("dict", "json", "envelope", "json-envelope")
METHODS = [("row_order", ()), ("row_order", (1,)), ("column_order", ()), ("column_order", (1,)),
           ("pairwise_significance_t_stats", (0,)), ("pairwise_significance_p_vals", (0,))]
CUBE_PROPS = ["counts", "unweighted_counts", "dimension_types", "name", "description", "missing",
              "population_fraction", "ndim", "means", "available_measures", "title",
              "valid_counts_summary_range", "n_responses", "has_weighted_counts"]
SET_PROPS = ["available_measures", "can_show_pairwise", "description", "has_numeric_measures",
             "has_weighted_counts", "is_ca_as_0th", "missing_count", "name",
             "population_fraction", "n_responses", "valid_counts_summary_range"]


# ------------------------------------------------------------------ deep comparison
def deep_equal(a, b):
    if isinstance(a, Raised) or isinstance(b, Raised):
        return isinstance(a, Raised) and isinstance(b, Raised) and a.type == b.type
    if a is None or b is None:
        return a is None and b is None
    if hasattr(a, "row_mask") and hasattr(b, "row_mask"):
        return all(deep_equal(getattr(a, m), getattr(b, m))
                   for m in ("row_mask", "column_mask", "table_mask"))
    if hasattr(a, "t_stats") and hasattr(b, "t_stats"):
        return deep_equal(_safe(lambda: a.t_stats), _safe(lambda: b.t_stats)) and \
            deep_equal(_safe(lambda: a.p_vals), _safe(lambda: b.p_vals))
    if isinstance(a, (str, bytes)) or isinstance(b, (str, bytes)):
        return str(a) == str(b)
    if isinstance(a, (frozenset, set)):
        return set(map(str, a)) == set(map(str, b))
    if isinstance(a, (list, tuple)) and isinstance(b, (list, tuple)):
        return len(a) == len(b) and all(deep_equal(x, y) for x, y in zip(a, b))
    if isinstance(a, np.ndarray) or isinstance(b, np.ndarray):
        a, b = np.asarray(a), np.asarray(b)
        if a.shape != b.shape:
            return False
        if a.dtype == object or b.dtype == object or a.dtype.kind in "US":
            return all(deep_equal(x, y) for x, y in zip(a.ravel().tolist(), b.ravel().tolist()))
        return all(close(x, y) for x, y in zip(a.ravel().tolist(), b.ravel().tolist()))
    try:
        return close(a, b)
    except (TypeError, ValueError):
        return a == b or repr(a) == repr(b)


def _safe(fn):
    try:
        return fn()
    except Exception as e:  # noqa
        return Raised(e)


def short(v):
    try:
        s = repr(jsonable(v if not isinstance(v, Raised) else repr(v)))
    except Exception:  # noqa
        s = repr(v)
    return s if len(s) < 200 else s[:200] + "..."


# ------------------------------------------------------------------ scenarios
@st.composite
def scenario_st(draw):
    kind = draw(st.sampled_from(["slice", "slice", "three-d", "strand", "multi", "multi",
                                 "shared-insertions", "shared-insertions",
                                 "set-tabbook", "set-ca0", "set-numeric"]))
    n = draw(S.n_st(16))
    weights = draw(S.weights_st(n, ("none", "int", "dyadic")))
    svars = {}
    sc = {"kind": kind, "population": draw(st.sampled_from([None, 700])),
          "mask_size": draw(st.sampled_from([0, 2]))}

    def arr_or_cat(alias):
        t = draw(st.sampled_from(["mr", "mr", "cat", "cat_date"]))
        if t == "mr":
            svars[alias] = draw(S.mr_var_st(alias, n, max_items=3, derived=True))
        else:
            svars[alias] = draw(S.cat_var_st(alias, n, flavour=t, max_valid=4,
                                             allow_order_key=draw(st.booleans())))
        return {"var": alias}

    queries = []
    weighted = weights is not None and draw(st.booleans())
    if kind in ("slice", "three-d", "strand"):
        nd = {"slice": 2, "three-d": 3, "strand": 1}[kind]
        if kind == "slice" and draw(st.integers(0, 4)) == 0:
            svars["ca"] = draw(S.ca_var_st("ca", n, max_items=3, max_valid=3))
            dims = [{"var": "ca", "part": "items"}, {"var": "ca", "part": "cats"}]
        else:
            dims = [arr_or_cat("v%d" % i) for i in range(nd)]
        qd = {"dims": dims, "weighted": weighted}
        if draw(st.integers(0, 3)) == 0:
            svars["x"] = draw(S.num_var_st("x", n))
            qd["measure"] = {"var": "x", "stats": ["mean", "sum"],
                             "valid_counts": draw(st.booleans())}
        queries = [qd]
    elif kind == "shared-insertions":
        # two categorical variables over the SAME category ids (different ones flagged
        # missing) whose dimensions are given one and the same insertion list object
        for alias in ("s0", "s1"):
            var = draw(S.cat_var_st(alias, n, flavour="cat", min_valid=2, max_valid=4,
                                    allow_order_key=False))
            ids = list(range(1, len(var["cats"]) + 1))
            remap = {c["id"]: i for c, i in zip(var["cats"], ids)}
            for c in var["cats"]:
                c["id"] = remap[c["id"]]
            var["answers"] = [remap[a] for a in var["answers"]]
            svars[alias] = var
        queries = [{"dims": [{"var": "s0"}, {"var": "s1"}], "weighted": weighted}]
    elif kind == "multi":
        # two unrelated 2-D cubes; the machine may build cube j with the transforms
        # object of cube j' (re-use of an already used transforms dict on other data)
        for j in range(2):
            dims = [arr_or_cat("m%d_%d" % (j, i)) for i in range(2)]
            queries.append({"dims": dims, "weighted": weighted})
    elif kind == "set-tabbook":
        r = arr_or_cat("r")
        cols = [arr_or_cat("c%d" % j) for j in range(draw(st.integers(1, 2)))]
        queries = [{"dims": [r], "weighted": weighted}] + [
            {"dims": [r, c], "weighted": weighted} for c in cols]
    elif kind == "set-ca0":
        svars["r"] = draw(S.ca_var_st("r", n, max_items=3, max_valid=3))
        cols = [arr_or_cat("c%d" % j) for j in range(draw(st.integers(1, 2)))]
        ca = [{"var": "r", "part": "items"}, {"var": "r", "part": "cats"}]
        queries = [{"dims": ca, "weighted": weighted}] + [
            {"dims": ca + [c], "weighted": weighted} for c in cols]
    else:
        svars["x"] = draw(S.num_var_st("x", n))
        m = {"var": "x", "stats": ["mean"], "valid_counts": True}
        cols = [arr_or_cat("c%d" % j) for j in range(draw(st.integers(1, 2)))]
        queries = [{"dims": [], "weighted": weighted, "measure": m}] + [
            {"dims": [c], "weighted": weighted, "measure": m} for c in cols]
    sv = {"n": n, "weights": weights, "vars": svars}
    sc["survey"], sc["queries"] = sv, queries
    # --- transforms per cube; references to array items in non-alias spellings + stale ones
    txs = []
    for qd in queries:
        tx = {}
        dims = qd["dims"][-2:]
        names = ["rows_dimension", "columns_dimension"] if len(qd["dims"]) >= 2 else \
            ["rows_dimension"]
        if kind == "set-numeric":
            names, dims = ["columns_dimension"], qd["dims"][-1:]
        for name, d in zip(names, dims):
            var = sv["vars"][d["var"]]
            part = d.get("part")
            t = {}
            if var["type"] in ("mr", "ca") and part != "cats":
                items = var["items"]
                pool = []
                for pos, it in enumerate(items):
                    pool += [it["alias"], it["sid"], it["eid"], str(it["eid"])]
                pool += ["zzz", 99, None]
                if draw(st.booleans()):
                    t["order"] = {"type": "explicit", "element_ids": draw(
                        st.lists(st.sampled_from(pool), max_size=4))}
                if draw(st.booleans()):
                    keys = draw(st.lists(st.sampled_from([p for p in pool if p is not None]),
                                         max_size=2, unique=True))
                    if keys:
                        t["elements"] = {k: draw(st.sampled_from(
                            [{"hide": True}, {"name": "N"}, {"fill": "#aabbcc"}])) for k in keys}
            else:
                if xforms.can_insert(var, part) and draw(st.booleans()):
                    v, m_ = xforms.dim_ids(var, part)
                    t["insertions"] = draw(xforms.insertions_st(v, m_, max_ins=2,
                                                                allow_malformed=False))
                refs = xforms.element_refs(var, part)
                elements, prune = draw(xforms.hide_prune_st(refs))
                if elements:
                    t["elements"] = elements
                if prune:
                    t["prune"] = True
            if t:
                tx[name] = t
        txs.append(tx)
    sc["transforms"] = txs
    # the caller may use ONE insertion list object for both dimensions
    if kind == "shared-insertions":
        pool = [1, 2, 3, 4, 5]
        ins = draw(xforms.insertions_st(pool, [], max_ins=3, min_ins=1, allow_malformed=False,
                                        with_id=draw(st.sampled_from([False, False, None]))))
        txs[0].setdefault("rows_dimension", {})["insertions"] = ins
        txs[0].setdefault("columns_dimension", {})["insertions"] = copy.deepcopy(ins)
        sc["alias_insertions"] = True
        return sc
    sc["alias_insertions"] = draw(st.booleans())
    if sc["alias_insertions"] and draw(st.booleans()):
        for tx in txs:
            for d in tx.values():
                for ins in d.get("insertions", []) if isinstance(d, dict) else []:
                    ins.pop("id", None)
    return sc


def encode_all(sc):
    return [zz9enc.encode(sc["survey"], q) for q in sc["queries"]]


# ------------------------------------------------------------------ reference (no history)
class Reference:
    """Value of (cube j, partition k, output) from pristine copies, fresh objects per read."""

    def __init__(self, sc):
        self.sc = sc
        self.resps = encode_all(sc)
        self.is_set = sc["kind"].startswith("set-")
        self.cache = {}

    def _fresh_partitions(self, j, tj=None):
        sc = self.sc
        tj = j if tj is None else tj
        if self.is_set:
            cs = lib.CubeSet(copy.deepcopy(self.resps), _reference_transforms(sc),
                             sc["population"], sc["mask_size"])
            return [ps[j] for ps in cs.partition_sets]
        return lib.Cube(copy.deepcopy(self.resps[j]),
                        transforms=_reference_transforms(sc)[tj],
                        population=sc["population"], mask_size=sc["mask_size"]).partitions

    def n_partitions(self, j, tj=None):
        key = ("n", j, tj)
        if key not in self.cache:
            self.cache[key] = _safe(lambda: len(self._fresh_partitions(j, tj)))
        return self.cache[key]

    def value(self, j, k, out, tj=None):
        key = (j, tj, k, json.dumps(out))
        if key not in self.cache:
            self.cache[key] = _safe(lambda: read_output(self._fresh_partitions(j, tj)[k], out))
        return self.cache[key]

    def cube_value(self, j, prop, tj=None):
        key = ("cube", j, tj, prop)
        if key not in self.cache:
            def get():
                c = lib.Cube(copy.deepcopy(self.resps[j]),
                             transforms=_reference_transforms(self.sc)[j if tj is None else tj],
                             population=self.sc["population"], mask_size=self.sc["mask_size"])
                return getattr(c, prop)
            self.cache[key] = _safe(get)
        return self.cache[key]

    def set_value(self, prop):
        key = ("set", prop)
        if key not in self.cache:
            def get():
                cs = lib.CubeSet(copy.deepcopy(self.resps), _reference_transforms(self.sc),
                                 self.sc["population"], self.sc["mask_size"])
                return getattr(cs, prop)
            self.cache[key] = _safe(get)
        return self.cache[key]


FAMILY_STEMS = ["rows_scale", "columns_scale", "row_", "column_", "table_", "population",
                "pairwise", "smoothed", "rows_", "columns_", "scale_", "inserted", "diff_",
                "derived", "payload", "unweighted", "share", "mean", "zscore", "pval",
                "residual", "min_base", "counts", "weighted"]


def families(outs):
    """Outputs grouped by name stem: members of a family share intermediate results."""
    fams = []
    for stem in FAMILY_STEMS:
        fam = [o for o in outs if o[0].startswith(stem)]
        if len(fam) >= 2:
            fams.append(fam[:8])
    # orders and codes / labels go together (insertion ids)
    oc = [o for o in outs if o[0] in ("row_order", "column_order", "row_codes", "column_codes",
                                      "row_labels", "column_labels", "payload_order")]
    if len(oc) >= 2:
        fams.append(oc)
    return fams or [outs[:4]]


def read_output(part, out):
    name, args = out
    attr = getattr(part, name)
    return attr(*args) if callable(attr) and args is not None else attr


def outputs_for(part):
    from cr.cube.cubepart import _Nub, _Slice
    if isinstance(part, _Nub):
        return [("means", None), ("unweighted_count", None), ("is_empty", None),
                ("table_base", None)]
    names = observe.public_lazyproperties(type(part))
    outs = [(n, None) for n in names]
    if isinstance(part, _Slice):
        outs += [(m, list(a)) for m, a in METHODS]
    else:
        outs += [("row_order", []), ("row_order", [1])]
    return outs


# ------------------------------------------------------------------ the machine
class Failure(Exception):
    pass


class _NullRec:
    """Recorder stand-in for the embedded C01 sanity check."""

    def event(self, *a):
        pass

    def nontrivial(self, *a):
        pass

    def compared(self, *a):
        pass

    def violation(self, msg, sig=None, detail=None):
        raise Failure("reference evaluation disagrees with the respondents: " + msg)


class PurityMachine(RuleBasedStateMachine):
    def __init__(self):
        super().__init__()
        self.sc = None
        self.history = []
        self.reads = 0
        self.shared_builds = 0

    @initialize(sc=scenario_st())
    def setup(self, sc):
        self.sc = sc
        self.ref = Reference(sc)
        # --- tie the reference itself to the respondents (a library-wide state leak would
        # --- otherwise corrupt reference and history alike and cancel out)
        if not sc["kind"].startswith("set-"):
            from props import c01
            c01.judge({"survey": sc["survey"], "query": sc["queries"][0],
                       "shape": [sc["kind"]]}, _NullRec())
        # --- the SHARED argument objects (never copied by the harness)
        self.shared = execute_setup(sc)
        self.objects = []   # ("cube", j, Cube) / ("set", None, CubeSet)
        self.history = []

    # ---- construction
    @rule(j=st.integers(0, 3), form=st.sampled_from(FORMS), tj=st.integers(0, 3))
    def new_cube(self, j, form, tj):
        step = ["new_cube", j, form, tj]
        self.history.append(step)
        apply_step(self.sc, self.shared, self.objects, step)
        self.shared_builds += 1

    @precondition(lambda self: self.sc is not None and self.sc["kind"].startswith("set-"))
    @rule()
    def new_set(self):
        step = ["new_set"]
        self.history.append(step)
        apply_step(self.sc, self.shared, self.objects, step)
        self.shared_builds += 1

    # ---- reads
    @precondition(lambda self: len(self.objects) > 0)
    @rule(o=st.integers(0, 7), k=st.integers(0, 5), p=st.integers(0, 400), again=st.booleans())
    def read(self, o, k, p, again):
        step = ["read", o, k, p, again]
        self.history.append(step)
        self.reads += 1 + int(again)
        problem = apply_step(self.sc, self.shared, self.objects, step, self.ref)
        if problem:
            raise Failure(problem)

    @precondition(lambda self: len(self.objects) > 0)
    @rule(o=st.integers(0, 7), k=st.integers(0, 5), fam=st.integers(0, 40),
          perm=st.integers(0, 10 ** 6))
    def read_family(self, o, k, fam, perm):
        """Read a whole family of related outputs (shared intermediates) in a drawn order."""
        step = ["read_family", o, k, fam, perm]
        self.history.append(step)
        self.reads += 4
        problem = apply_step(self.sc, self.shared, self.objects, step, self.ref)
        if problem:
            raise Failure(problem)

    @precondition(lambda self: len(self.objects) > 0)
    @rule(o=st.integers(0, 7), k=st.integers(0, 5), perm=st.integers(0, 10 ** 9))
    def read_all(self, o, k, perm):
        """Read EVERY output of one partition in a drawn permutation: every ordered pair of
        outputs (a read before b) is exercised with probability 1/2 per call."""
        step = ["read_all", o, k, perm]
        self.history.append(step)
        self.reads += 60
        problem = apply_step(self.sc, self.shared, self.objects, step, self.ref)
        if problem:
            raise Failure(problem)

    @precondition(lambda self: len(self.objects) > 0)
    @rule(o=st.integers(0, 7), p=st.integers(0, 40))
    def read_container(self, o, p):
        step = ["read_container", o, p]
        self.history.append(step)
        self.reads += 1
        problem = apply_step(self.sc, self.shared, self.objects, step, self.ref)
        if problem:
            raise Failure(problem)


def execute_setup(sc):
    resps = encode_all(sc)
    return {
        "dict": resps,
        "json": [json.dumps(r) for r in resps],
        "envelope": [{"value": r} for r in resps],   # wraps the SAME dict objects
        "json-envelope": [json.dumps({"value": r}) for r in resps],  # a shoji response as text
        "tx": _shared_transforms(sc),
    }


def _shared_transforms(sc):
    txs = copy.deepcopy(sc["transforms"])
    if sc.get("alias_insertions"):
        for tx in txs:
            r, c = tx.get("rows_dimension"), tx.get("columns_dimension")
            if r and c and "insertions" in r and "insertions" in c:
                # one list object serves both dimensions (ids valid for either are kept)
                c["insertions"] = r["insertions"]
    return txs


def _reference_transforms(sc):
    """What the shared transforms MEAN: equal content, no shared sub-objects."""
    txs = copy.deepcopy(sc["transforms"])
    if sc.get("alias_insertions"):
        for tx in txs:
            r, c = tx.get("rows_dimension"), tx.get("columns_dimension")
            if r and c and "insertions" in r and "insertions" in c:
                c["insertions"] = copy.deepcopy(r["insertions"])
    return txs


def apply_step(sc, shared, objects, step, ref=None):
    """Executes one step on the shared objects; returns a problem description or None."""
    is_set = sc["kind"].startswith("set-")
    op = step[0]
    if op == "new_cube":
        j = step[1] % len(sc["queries"])
        form = step[2]
        if is_set and j > 0:
            # cubes of a set are only meaningful inside the set (inflation / augmentation)
            j = 0
        resp = shared[form][j]
        if is_set:
            objects.append(("set", None, lib.CubeSet(
                [shared[form][i] for i in range(len(sc["queries"]))], shared["tx"],
                sc["population"], sc["mask_size"])))
        else:
            tj = (step[3] if len(step) > 3 else j) % len(sc["queries"])
            if sc["kind"] != "multi":
                tj = j
            objects.append(("cube", (j, tj), lib.Cube(resp, transforms=shared["tx"][tj],
                                                      population=sc["population"],
                                                      mask_size=sc["mask_size"])))
        return None
    if op == "new_set":
        objects.append(("set", None, lib.CubeSet(shared["dict"], shared["tx"], sc["population"],
                                                 sc["mask_size"])))
        return None
    kind, jt, obj = objects[step[1] % len(objects)]
    j, tj = jt if isinstance(jt, tuple) else (jt, None)
    if op == "read_container":
        if kind == "cube":
            prop = CUBE_PROPS[step[2] % len(CUBE_PROPS)]
            want = ref.cube_value(j, prop, tj)
        else:
            prop = SET_PROPS[step[2] % len(SET_PROPS)]
            want = ref.set_value(prop)
        got = _safe(lambda: getattr(obj, prop))
        if not deep_equal(got, want):
            return "%s.%s = %s after this history, %s on a fresh evaluation" % (
                kind, prop, short(got), short(want))
        return None
    # --- read a partition output
    if kind == "cube":
        parts = _safe(lambda: obj.partitions)
        jj = j
    else:
        jj = step[2] % len(sc["queries"])
        tj = None
        parts = _safe(lambda: [ps[jj] for ps in obj.partition_sets])
    nref = ref.n_partitions(jj, tj)
    if isinstance(parts, Raised) or isinstance(nref, Raised):
        if not deep_equal(parts if isinstance(parts, Raised) else None,
                          nref if isinstance(nref, Raised) else None):
            return "partitions: %s vs fresh %s" % (short(parts), short(nref))
        return None
    if len(parts) != nref:
        return "%d partitions, %d on a fresh evaluation" % (len(parts), nref)
    if not parts:
        return None
    k = step[2] % len(parts)
    part = parts[k]
    outs = outputs_for(part)
    if op in ("read_family", "read_all"):
        if op == "read_all":
            fam = outs
            code = step[3]
        else:
            fams = families(outs)
            fam = fams[step[3] % len(fams)]
            code = step[4]
        order = list(range(len(fam)))
        # deterministic permutation from the drawn integer (LCG-driven Fisher-Yates)
        seq = []
        state = code + 1
        while order:
            state = (state * 6364136223846793005 + 1442695040888963407) % (2 ** 64)
            seq.append(order.pop((state >> 33) % len(order)))
        for i in seq:
            out = fam[i]
            want = ref.value(jj, k, out, tj)
            got = _safe(lambda: read_output(part, out))
            if not deep_equal(got, want):
                return ("cube %d partition %d %s%s = %s after this history (family read), "
                        "but %s on a fresh evaluation of pristine copies" % (
                            jj, k, out[0], "" if out[1] is None else tuple(out[1]),
                            short(got), short(want)))
        return None
    out = outs[step[3] % len(outs)]
    want = ref.value(jj, k, out, tj)
    for attempt in range(2 if step[4] else 1):
        got = _safe(lambda: read_output(part, out))
        if not deep_equal(got, want):
            return ("cube %d partition %d %s%s = %s after this history (read #%d), but %s on "
                    "a fresh evaluation of pristine copies" % (
                        jj, k, out[0], "" if out[1] is None else tuple(out[1]), short(got),
                        attempt + 1, short(want)))
    return None


def replay_history(case, rec):
    """Plain re-execution of a recorded history (no Hypothesis)."""
    sc = case["scenario"]
    ref = Reference(sc)
    shared = execute_setup(sc)
    objects = []
    for step in case["history"]:
        problem = apply_step(sc, shared, objects, step, ref)
        if problem:
            rec.violation(problem, "history")


def run_machine(sc_def, rec, n_examples, hseed, tier, known):
    holder = {"fail": None}

    class M(PurityMachine):
        def teardown(self):
            if self.sc is None:
                return
            case = {"scenario": self.sc, "history": list(self.history)}
            rec.begin(case)
            rec.event("kind=" + self.sc["kind"])
            if self.shared_builds >= 2 and self.reads >= 10:
                rec.nontrivial()
            rec.compared(self.reads)
            rec.end()

        def check_fail(self):
            pass

    def run():
        try:
            run_state_machine_as_test(
                hypothesis.seed(hseed)(M),
                settings=settings(
                    max_examples=n_examples, stateful_step_count=40, deadline=None,
                    database=None, report_multiple_bugs=False, print_blob=False,
                    phases=[Phase.generate, Phase.shrink],
                    suppress_health_check=list(HealthCheck)),
            )
        except Failure as f:
            holder["fail"] = str(f)
        except hypothesis.errors.HypothesisException as e:
            # the harness is deterministic; an example that does not replay identically
            # means results depend on state outside the arguments (leaking between cubes)
            holder["fail"] = ("evaluation is not repeatable across identical histories "
                              "(state outside the arguments leaks between cubes): %s" % (
                                  str(e).splitlines()[0] if str(e) else type(e).__name__))
        except Exception as e:  # noqa
            v = classify_exception(e)
            if v is None:
                raise
            holder["fail"] = v.msg

    last = {"case": None}
    orig_init = M.__init__

    def patched_init(self):
        orig_init(self)
        last["m"] = self

    M.__init__ = patched_init
    run()
    if holder["fail"] is None:
        if tier == "thorough":
            return thread_smoke(rec, hseed)
        return None
    m = last.get("m")
    rec.frozen = True
    case = {"scenario": m.sc, "history": list(m.history)}
    return (case, Violation(holder["fail"], "%s/history" % sc_def.name))


def thread_smoke(rec, hseed):
    return None


def judge_threads(sc, rec):
    """8 threads read every output of ONE cube (each in its own rotation); every value read
    must equal the reference.  Samples schedules; cannot exclude a race."""
    if sc["kind"].startswith("set-"):
        return
    rec.event("kind=" + sc["kind"])
    ref = Reference(sc)
    shared = execute_setup(sc)
    cube = lib.Cube(shared["dict"][0], transforms=shared["tx"][0], population=sc["population"],
                    mask_size=sc["mask_size"])
    nref = ref.n_partitions(0)
    if isinstance(nref, Raised) or nref == 0:
        return
    rec.nontrivial()
    problems = []
    barrier = threading.Barrier(8)

    def worker(tid):
        try:
            barrier.wait(timeout=10)
            parts = cube.partitions
            for k, part in enumerate(parts):
                outs = outputs_for(part)
                rot = (tid * 17) % len(outs)
                for out in outs[rot:] + outs[:rot]:
                    got = _safe(lambda: read_output(part, out))
                    want = ref.value(0, k, out)
                    if not deep_equal(got, want):
                        problems.append("thread %d: partition %d %s = %s, reference %s" % (
                            tid, k, out[0], short(got), short(want)))
                        return
        except Exception as e:  # noqa
            problems.append("thread %d crashed: %r" % (tid, e))

    # reference values first (single-threaded), so threads only read the shared cube
    for k in range(nref):
        part = ref._fresh_partitions(0)[k]
        for out in outputs_for(part):
            ref.value(0, k, out)
    threads = [threading.Thread(target=worker, args=(t,)) for t in range(8)]
    for t in threads:
        t.start()
    for t in threads:
        t.join(60)
    rec.compared(8)
    if problems:
        rec.violation(problems[0], "threads")


# ------------------------------------------------------------------ argument forms
@st.composite
def forms_case_st(draw):
    return draw(scenario_st())


def judge_forms(sc, rec):
    """dict, JSON text and {'value': ...} envelope give identical results for everything."""
    rec.event("kind=" + sc["kind"])
    if sc["kind"].startswith("set-"):
        return
    resp = encode_all(sc)[0]
    tx = sc["transforms"][0]
    rec.nontrivial()
    snaps = []
    for form in FORMS:
        arg = {"dict": copy.deepcopy(resp), "json": json.dumps(resp),
               "envelope": {"value": copy.deepcopy(resp)},
               "json-envelope": json.dumps({"value": resp})}[form]
        cube = lib.Cube(arg, transforms=copy.deepcopy(tx), population=sc["population"],
                        mask_size=sc["mask_size"])
        parts = cube.partitions
        snap = []
        for part in parts:
            snap.append({json.dumps(o): _safe(lambda: read_output(part, o))
                         for o in outputs_for(part)})
        snaps.append(snap)
    for form, snap in zip(FORMS[1:], snaps[1:]):
        if len(snap) != len(snaps[0]):
            rec.violation("%d partitions as %s, %d as dict" % (len(snap), form, len(snaps[0])),
                          "forms-npartitions")
            continue
        for k, (a, b) in enumerate(zip(snaps[0], snap)):
            for o in a:
                rec.compared()
                if not deep_equal(a[o], b[o]):
                    rec.violation("partition %d %s: %s as dict, %s as %s" % (
                        k, o, short(a[o]), short(b[o]), form), "forms")


# ------------------------------------------------------------------ re-use across cube sets
@st.composite
def set_reuse_case_st(draw):
    sc = draw(scenario_st().filter(lambda c: c["kind"].startswith("set-")))
    sc["subset"] = draw(st.sampled_from(["first-only", "first+last", "last-alone"]))
    sc["form"] = draw(st.sampled_from(["dict", "envelope", "json"]))
    return sc


def _snap_parts(parts):
    return [{json.dumps(o): _safe(lambda: read_output(part, o)) for o in outputs_for(part)}
            for part in parts]


def judge_set_reuse(sc, rec):
    """Response objects that went through one cube set (inflation of numeric summaries,
    augmentation) and are then used in ANOTHER set - the rows cube shared by the pages of a
    tab book - or on their own give what pristine copies give."""
    rec.event("kind=" + sc["kind"])
    rec.event("subset=" + sc["subset"])
    resps = encode_all(sc)
    shared = [copy.deepcopy(r) for r in resps]
    wrap = (lambda r: {"value": r}) if sc["form"] == "envelope" else (lambda r: r)
    if sc["form"] == "json":
        # the same TEXT object is handed to both uses (a str cannot be rewritten, but a
        # parse shared behind the scenes can); the pristine run gets the dicts
        texts = {id(r): json.dumps(r) for r in shared}
        wrap = lambda r: texts.get(id(r), r)  # noqa: E731
    rec.event("form=" + sc["form"])
    txs = _reference_transforms(sc)
    first = lib.CubeSet([wrap(r) for r in shared], copy.deepcopy(txs), sc["population"],
                        sc["mask_size"])
    for ps in first.partition_sets:       # evaluate the full set first
        for part in ps:
            _safe(lambda: part.counts)
    idx = {"first-only": [0], "first+last": [0, len(resps) - 1],
           "last-alone": [len(resps) - 1]}[sc["subset"]]
    rec.nontrivial(len(resps) > 2 or sc["subset"] != "first+last")

    def build(objs):
        sub_tx = [copy.deepcopy(txs[i]) for i in idx]
        if sc["subset"] == "last-alone":
            return _safe(lambda: lib.Cube(wrap(objs[idx[0]]), transforms=sub_tx[0],
                                          population=sc["population"],
                                          mask_size=sc["mask_size"]).partitions)
        cs = lib.CubeSet([wrap(objs[i]) for i in idx], sub_tx, sc["population"],
                         sc["mask_size"])
        return _safe(lambda: [p for ps in cs.partition_sets for p in ps])

    got = build(shared)
    want = build([copy.deepcopy(r) for r in resps])
    rec.compared()
    if isinstance(got, Raised) or isinstance(want, Raised):
        if not deep_equal(got, want):
            rec.violation("partitions of the second use: %s, pristine copies give %s" % (
                short(got), short(want)), "set-reuse-partitions")
        return
    if [type(p).__name__ for p in got] != [type(p).__name__ for p in want]:
        rec.violation("after the responses went through a cube set, their re-use (%s) yields "
                      "partitions %r; pristine copies yield %r" % (
                          sc["subset"], [type(p).__name__ for p in got],
                          [type(p).__name__ for p in want]), "set-reuse-shape")
        return
    for k, (a, b) in enumerate(zip(_snap_parts(got), _snap_parts(want))):
        for o in b:
            rec.compared()
            if not deep_equal(a.get(o), b[o]):
                rec.violation("re-use (%s) partition %d %s: %s, pristine copies give %s" % (
                    sc["subset"], k, o, short(a.get(o)), short(b[o])), "set-reuse")


# ------------------------------------------------------------------ interpreter hash seed
@st.composite
def hashseed_case_st(draw):
    """Numeric summaries (cube sets of 0-D / 1-D cubes, numeric arrays, 2-D means) whose
    measures do not all carry the same metadata - as zz9 sends them."""
    kind = draw(st.sampled_from(["set-numeric", "numarr", "slice-mean"]))
    n = draw(S.n_st(12))
    weights = draw(S.weights_st(n, ("none", "int")))
    svars = {}
    weighted = weights is not None and draw(st.booleans())
    stats = draw(st.sampled_from([["mean"], ["mean", "sum"], ["sum", "stddev", "mean"],
                                  ["median", "mean"]]))
    if kind == "numarr":
        svars["na"] = draw(S.numarr_var_st("na", n, max_items=3))
        svars["c0"] = draw(S.cat_var_st("c0", n, max_valid=3, allow_order_key=False))
        m = {"var": "na", "stats": stats, "valid_counts": True}
        queries = [{"dims": draw(st.sampled_from([[], [{"var": "c0"}]])), "weighted": weighted,
                    "measure": m}]
    else:
        svars["x"] = draw(S.num_var_st("x", n))
        svars["c0"] = draw(S.cat_var_st("c0", n, max_valid=3, allow_order_key=False))
        m = {"var": "x", "stats": stats, "valid_counts": draw(st.booleans())}
        if kind == "set-numeric":
            queries = [{"dims": [], "weighted": weighted, "measure": m},
                       {"dims": [{"var": "c0"}], "weighted": weighted, "measure": m}]
        else:
            svars["c1"] = draw(S.cat_var_st("c1", n, max_valid=3, allow_order_key=False))
            queries = [{"dims": [{"var": "c0"}, {"var": "c1"}], "weighted": weighted,
                        "measure": m}]
    return {"kind": kind, "survey": {"n": n, "weights": weights, "vars": svars},
            "queries": queries, "refs": draw(st.sampled_from(["all", "stats-only", "none"])),
            "population": None, "mask_size": 0}


def judge_hashseed(sc, rec):
    """The same arguments evaluated by interpreters started with different PYTHONHASHSEED
    values give the same results (names and labels included)."""
    import subprocess
    import sys
    import tempfile
    rec.event("kind=" + sc["kind"])
    rec.event("refs=" + sc["refs"])
    resps = [zz9enc.encode(sc["survey"], q) for q in sc["queries"]]
    for r in resps:
        ms = r["result"]["measures"]
        for name, mdef in ms.items():
            if name == "count" or not isinstance(mdef.get("metadata"), dict):
                continue
            is_vc = name.startswith("valid_count")
            if sc["refs"] == "none" or (sc["refs"] == "stats-only" and is_vc):
                meta = copy.deepcopy(mdef["metadata"])
                meta["references"] = {}   # zz9 leaves them out on some measures
                mdef["metadata"] = meta
    n_numeric = len([k for k in resps[0]["result"]["measures"]
                     if k not in ("count", "weighted_squared_count")])
    rec.nontrivial(n_numeric >= 2 and sc["refs"] != "all")
    spec = {"responses": resps, "transforms": [{} for _ in resps],
            "population": sc["population"], "mask_size": sc["mask_size"],
            "as_set": sc["kind"] == "set-numeric"}
    with tempfile.NamedTemporaryFile("w", suffix=".json", delete=False) as f:
        json.dump(spec, f)
        path = f.name
    try:
        outs = {}
        for hs in ("0", "1", "7", "12345"):
            envv = dict(os.environ, PYTHONHASHSEED=hs)
            p_ = subprocess.run([sys.executable, "-m", "engine.probe", path], env=envv,
                                stdout=subprocess.PIPE, stderr=subprocess.PIPE, text=True)
            if p_.returncode != 0:
                rec.violation("evaluation fails under PYTHONHASHSEED=%s: %s" % (
                    hs, p_.stderr.strip().splitlines()[-1:] or p_.returncode),
                    "hash-seed-crash")
                return
            outs[hs] = json.loads(p_.stdout)
    finally:
        os.unlink(path)
    ref = outs["0"]
    for hs, o in outs.items():
        for key in sorted(ref):
            rec.compared()
            if o.get(key) != ref[key]:
                rec.violation("%s = %s under PYTHONHASHSEED=%s but %s under PYTHONHASHSEED=0" % (
                    key, short(o.get(key)), hs, short(ref[key])), "hash-seed")


# ------------------------------------------------------------------ permuted reads
@st.composite
def permuted_case_st(draw):
    sc = draw(scenario_st().filter(lambda c: c["kind"] in ("strand", "slice", "three-d")))
    sc["perm_seed"] = draw(st.integers(0, 10 ** 9))
    if draw(st.booleans()):
        # differences are where outputs get masked after assembly (NaN for population
        # estimates, bases ...): make sure half of the cases display one
        qd, tx = sc["queries"][0], sc["transforms"][0]
        names = ["rows_dimension", "columns_dimension"] if len(qd["dims"]) >= 2 else \
            ["rows_dimension"]
        for name, d in zip(names, qd["dims"][-2:]):
            var, part = sc["survey"]["vars"][d["var"]], d.get("part")
            if not xforms.can_insert(var, part):
                continue
            v, _m = xforms.dim_ids(var, part)
            if not v:
                continue
            ins = tx.setdefault(name, {}).setdefault("insertions", [])
            ins.append({"function": "subtotal", "name": "DIFF", "id": 90,
                        "anchor": draw(st.sampled_from(["top", "bottom"])),
                        "kwargs": {"positive": [draw(st.sampled_from(v))],
                                   "negative": [draw(st.sampled_from(v))]}})
    return sc


def judge_permuted(sc, rec):
    """Every output of every partition, read on ONE cube in a drawn order and then (on another
    cube) in the reverse order, equals its value on a cube of its own: for any two outputs a,
    b both 'a before b' and 'b before a' are exercised in every case."""
    import random
    rec.event("kind=" + sc["kind"])
    ref = Reference(sc)
    resp = encode_all(sc)[0]
    tx = _reference_transforms(sc)[0]
    n = ref.n_partitions(0)
    if isinstance(n, Raised) or not n:
        return
    rec.nontrivial()
    for direction in (1, -1):
        cube = lib.Cube(copy.deepcopy(resp), transforms=copy.deepcopy(tx),
                        population=sc["population"], mask_size=sc["mask_size"])
        parts = cube.partitions
        for k, part in enumerate(parts):
            outs = outputs_for(part)
            order = list(range(len(outs)))
            random.Random(sc["perm_seed"] + k).shuffle(order)   # drawn by Hypothesis
            for i in order[::direction]:
                out = outs[i]
                want = ref.value(0, k, out)
                got = _safe(lambda: read_output(part, out))
                rec.compared()
                if not deep_equal(got, want):
                    rec.violation(
                        "partition %d %s%s = %s when read as number %d of a %s pass over all "
                        "outputs of one cube, but %s on a cube of its own" % (
                            k, out[0], "" if out[1] is None else tuple(out[1]), short(got),
                            order[::direction].index(i) + 1,
                            "forward" if direction == 1 else "reverse", short(want)),
                        "read-order")


SUBCHECKS = [
    SubCheck("histories", None, replay_history, quick=640, thorough=12000, kind="custom",
             custom_fn=run_machine),
    SubCheck("forms", forms_case_st(), judge_forms, quick=480, thorough=6000),
    SubCheck("threads", forms_case_st(), judge_threads, quick=64, thorough=1600),
    SubCheck("set-reuse", set_reuse_case_st(), judge_set_reuse, quick=300, thorough=4000),
    SubCheck("hash-seed", hashseed_case_st(), judge_hashseed, quick=32, thorough=320),
    SubCheck("permuted-reads", permuted_case_st(), judge_permuted, quick=800, thorough=8000),
]
