"""C13 - pairwise column tests: statistic, p-value and index sets."""
import math

import numpy as np
from hypothesis import strategies as st
from scipy.special import betainc

from engine import lib, scen, xforms, zz9enc
from engine.cmp import close
from engine.oracle import Oracle, apparent_dims
from engine.runner import SubCheck
from props.c02 import _specs

PROPERTY = "C13"
RULE = (
    "Random surveys with categorical / MR columns, weighted with and without the squared-"
    "weight measure, with subtotal rows and columns; for every selected column a and "
    "compared column b the t statistic is recomputed from respondent-level column "
    "proportions and (effective) bases, df = n_a + n_b - 2, two-sided Student-t p via the "
    "incomplete beta function; antisymmetry / symmetry / zero diagonal; Welch test for mean "
    "responses from the response's means, stddevs, valid counts; overlap-corrected variant "
    "from respondent-level S/N tabulations; index sets recomputed from public t/p for every "
    "alpha pair and only-larger flag; alt sets contain primary sets. Non-trivial: effective "
    "base differs from unweighted base, or a subtotal column, or an MR column."
)
BOUNDS = "respondents 4..30, valid categories 2..4, items 2..3, insertions 0..2"
ASSUMPTIONS = [
    "zz9 overlap measures: overlap[..,i,s,j] = weight of the cell's respondents who selected "
    "item j; valid_overlap = weight of those non-missing on j (as described in the library's "
    "docstrings)",
    "p-values compared with atol 1e-9; Student-t tail via scipy.special.betainc, not t.cdf",
]

SHAPES = [("cat", "cat")] * 4 + [("cat", "mr"), ("mr", "cat"), ("cat_date", "cat"),
                                  ("mr", "mr"), ("cat", "text"),
                                  # 3-D: the same test on every slice of one cube
                                  ("cat", "cat", "cat"), ("mr", "cat", "cat"), ("cat", "mr", "cat")]


def t_two_sided(t, df):
    if t is None or df is None or (isinstance(t, float) and math.isnan(t)):
        return None
    if df <= 0:
        return None
    if math.isinf(t):
        return 0.0
    return float(betainc(df / 2.0, 0.5, df / (df + t * t)))


@st.composite
def case_st(draw):
    sc = draw(scen.scenario_st(SHAPES, measure="none", max_n=30, min_n=4, min_valid=2,
                               skew=False, weight_kinds=("none", "int", "dyadic", "tenths")))
    sc["query"]["squared"] = draw(st.booleans())
    tx, inforce = draw(xforms.slice_insertions_st(sc, where="transforms", max_ins=3,
                                                  allow_malformed=False, allow_diff=True))
    sc["transforms"] = tx
    sc["insertions"] = inforce
    alpha = draw(st.sampled_from([None, [0.05], [0.3], [0.2, 0.6], [0.7, 0.1], 0.4]))
    pw = {}
    if alpha is not None:
        pw["alpha"] = alpha
    ol = draw(st.sampled_from([None, True, False]))
    if ol is not None:
        pw["only_larger"] = ol
    if pw:
        sc["transforms"]["pairwise_indices"] = pw
    sc["pw"] = pw
    return sc


def _col_stats(orc, rs, cs, squared):
    """(column proportion, n) of cell (rs, cs); n = unweighted base or effective base."""
    if orc.is_diff(cs):
        return None, None
    cb = orc.col_base(rs, cs, True)
    cnt = orc.count(rs, cs, True)
    p = None if cb == 0 else cnt / cb
    if squared:
        ctx = orc.ctx(orc.spec_key(rs), orc.spec_key(cs))
        rk = orc.spec_key(rs)
        sw = sw2 = 0.0
        for r in orc.respondents():
            if orc.in_union(orc.cols, r, cs, ctx) and orc.valid_on(orc.rows, r, rk, ctx):
                w = orc.w(r, True)
                sw += w
                sw2 += w * w
        n = None if sw2 == 0 else sw * sw / sw2
    else:
        n = orc.col_base(rs, cs, False)
    return p, n


def judge_stat(case, rec):
    """Every slice of the cube is judged against its own respondents (3-D: one slice per
    table element, read one after the other on the same cube)."""
    sv, q = case["survey"], case["query"]
    parts = lib.cube(zz9enc.encode(sv, q), case["transforms"]).partitions
    rec.event("shape=" + "x".join(case["shape"]))
    dims = apparent_dims(sv, q)
    tkeys = dims[0].keys if len(dims) == 3 else [None]
    if len(dims) == 3 and len(parts) > 1:
        rec.event("3-D: several slices")
    for part, tkey in zip(parts, tkeys):
        _judge_stat_part(case, rec, part, Oracle(sv, q, table_key=tkey))


def _judge_stat_part(case, rec, part, orc):
    sv, q = case["survey"], case["query"]
    lib.warm(part, case.get("warmup"))
    rspecs, cspecs = _specs(part, orc, case)
    inexact = bool(q.get("weighted")) and bool(sv["weights"]) and any(
        float(w * 8) != int(w * 8) for w in sv["weights"])
    squared = bool(q.get("squared")) and orc.W is not None and \
        any(w != 1 for w in sv["weights"])
    # --- the library uses squared weights only when the response carries them AND the
    # --- weighted counts differ from the unweighted ones
    squared = bool(q.get("squared")) and orc.W is not None
    if squared:
        from engine.zz9enc import encode  # noqa
        resp = zz9enc.encode(sv, q)["result"]
        if resp["measures"]["count"]["data"] == resp["counts"]:
            squared = "weighted_squared_count" in resp["measures"]
    stats = {}
    for i, rs in enumerate(rspecs):
        for j, cs in enumerate(cspecs):
            stats[i, j] = _col_stats(orc, rs, cs, squared)
    if any(c[0] == "sub" for c in cspecs) or orc.cols.kind == "mr":
        rec.nontrivial()
    if squared:
        rec.event("squared weights")
        for (i, j), (p, n) in stats.items():
            if n is not None and not close(n, orc.col_base(rspecs[i], cspecs[j], False)):
                rec.nontrivial()
                break
    ncol = len(cspecs)
    T, P = {}, {}
    for a in range(ncol):
        T[a] = np.asarray(part.pairwise_significance_t_stats(a), dtype=float)
        P[a] = np.asarray(part.pairwise_significance_p_vals(a), dtype=float)
    for a in range(ncol):
        for i, rs in enumerate(rspecs):
            if orc.is_diff(rs) and orc.rows.var.get("flavour") == "cat_date":
                continue  # wave differences have their own proportion rule (C04)
            pa, na = stats[i, a]
            for b in range(ncol):
                pb, nb = stats[i, b]
                g_t, g_p = T[a][i, b], P[a][i, b]
                rec.compared(2)
                if None in (pa, na, pb, nb) or na == 0 or nb == 0:
                    continue  # undefined proportion/base: only relations below are judged
                v = pa * (1 - pa) / na + pb * (1 - pb) / nb
                if orc.is_diff(rs):
                    v = abs(v)
                if inexact and abs(v) < 1e-12:
                    # weights that are not exactly representable: whether a variance of
                    # "zero" comes out as 0, 4e-17 or -4e-17 is rounding, the statistic is
                    # 0/0 or x/0 either way
                    continue
                if v <= 0:
                    want_t = None if (pb - pa) == 0 else math.copysign(math.inf, pb - pa)
                else:
                    want_t = (pb - pa) / math.sqrt(v)
                if a == b:
                    want_t = 0.0 if v > 0 else None
                if not close(g_t, want_t, rtol=1e-8, atol=1e-9):
                    rec.violation(
                        "t(selected=%d, compared=%d) row %d = %r; from p_a=%r n_a=%r p_b=%r "
                        "n_b=%r expected %r" % (a, b, i, g_t, pa, na, pb, nb, want_t), "t-stat")
                    continue
                df = na + nb - 2
                want_p = t_two_sided(want_t, df) if want_t is not None else None
                if not close(g_p, want_p, rtol=1e-6, atol=1e-9):
                    rec.violation(
                        "p(selected=%d, compared=%d) row %d = %r; two-sided Student-t with "
                        "df=%r of t=%r is %r" % (a, b, i, g_p, df, want_t, want_p), "p-value")
                if not np.isnan(g_p) and not (0 <= g_p <= 1 + 1e-12):
                    rec.violation("p-value %r outside [0,1]" % g_p, "p-range")
        # --- relations: antisymmetry of t, symmetry of p, zero diagonal
        for b in range(ncol):
            ta, tb = T[a][:, b], T[b][:, a]
            for i in range(len(rspecs)):
                rec.compared()
                x, y = ta[i], tb[i]
                if np.isnan(x) or np.isnan(y):
                    continue
                if not close(x, -y, rtol=1e-8, atol=1e-9):
                    rec.violation("t(%d,%d)=%r is not -t(%d,%d)=%r (row %d)" % (
                        a, b, x, b, a, y, i), "antisymmetry")
                if not close(P[a][i, b], P[b][i, a], rtol=1e-7, atol=1e-9):
                    rec.violation("p(%d,%d)=%r != p(%d,%d)=%r" % (
                        a, b, P[a][i, b], b, a, P[b][i, a]), "p-symmetry")
    _check_indices(part, T, P, case["pw"], len(rspecs), ncol, rec)
    if not orc.rows.is_array and not orc.cols.is_array:
        _check_legacy(part, T, rec)  # the legacy helper is a CAT x CAT construct


def _alphas(pw):
    a = pw.get("alpha")
    if not a:
        return 0.05, None
    if isinstance(a, float):
        return a, None
    if len(a) == 1:
        return a[0], None
    lo, hi = sorted(a[:2])
    return lo, hi


def _check_indices(part, T, P, pw, nrow, ncol, rec, names=("pairwise_indices",
                                                           "pairwise_indices_alt"),
                   self_sig="self-index"):
    alpha, alt = _alphas(pw)
    only_larger = pw.get("only_larger", True) is not False
    prim = getattr(part, names[0])
    alts = getattr(part, names[1])
    rec.compared()
    if (alt is None) != (alts is None):
        rec.violation("%s is %r for alpha %r" % (names[1], alts, pw.get("alpha")), "alt-none")
    if nrow == 0 or ncol == 0:
        return
    for i in range(nrow):
        for c in range(ncol):
            for thr, got_all, nm in ((alpha, prim, names[0]), (alt, alts, names[1])):
                if thr is None or got_all is None:
                    continue
                want = tuple(k for k in range(ncol)
                             if P[c][i, k] < thr and (not only_larger or T[c][i, k] < 0))
                got = tuple(int(x) for x in got_all[i][c])
                rec.compared()
                if c in got:
                    rec.violation("%s[%d][%d] = %r contains the column itself" % (
                        nm, i, c, got), self_sig)
                    got = tuple(x for x in got if x != c)
                if got != want:
                    rec.violation("%s[%d][%d] = %r; columns with p < %r%s are %r" % (
                        nm, i, c, got, thr, " and t < 0" if only_larger else "", want),
                        "indices")
            if alts is not None and prim is not None:
                if not set(int(x) for x in prim[i][c]) <= set(int(x) for x in alts[i][c]):
                    rec.violation("secondary-alpha set %r does not contain primary %r" % (
                        alts[i][c], prim[i][c]), "alt-superset")


def _check_legacy(part, T, rec):
    """pairwise_significance_tests[i] must report the same statistic as the current API."""
    try:
        tests = part.pairwise_significance_tests
    except Exception:  # noqa - legacy helper unavailable for this pairing
        return
    for a, test in enumerate(tests):
        try:
            lt = np.asarray(test.t_stats, dtype=float)
        except Exception:  # noqa
            return
        if lt.shape != T[a].shape:
            continue
        for x, y in zip(lt.ravel(), T[a].ravel()):
            rec.compared()
            if np.isnan(x) or np.isnan(y) or np.isinf(x) or np.isinf(y):
                continue
            if not close(x, y, rtol=1e-8, atol=1e-9):
                rec.violation("legacy pairwise_significance_tests[%d].t_stats %r differs from "
                              "pairwise_significance_t_stats(%d) %r" % (a, x, a, y),
                              "legacy-t-stats")
                return


# ------------------------------------------------------------------------------ means
@st.composite
def means_case_st(draw):
    sc = draw(scen.scenario_st([("cat", "cat"), ("cat", "cat"), ("mr", "cat"), ("cat", "mr")],
                               measure="always", stats=["mean", "stddev"], max_n=30, min_n=6,
                               min_valid=2, skew=False,
                               weight_kinds=("none", "int", "dyadic")))
    sc["query"]["measure"]["valid_counts"] = True
    tx, inforce = draw(xforms.slice_insertions_st(sc, where="transforms", max_ins=3,
                                                  allow_malformed=False, allow_diff=False))
    sc["transforms"] = tx
    sc["insertions"] = inforce
    pw = {"alpha": draw(st.sampled_from([[0.3], [0.2, 0.6]])),
          "only_larger": draw(st.booleans())}
    sc["transforms"]["pairwise_indices"] = pw
    sc["pw"] = pw
    return sc


def judge_means(case, rec):
    sv, q = case["survey"], case["query"]
    part = lib.cube(zz9enc.encode(sv, q), case["transforms"]).partitions[0]
    lib.warm(part, case.get("warmup"))
    orc = Oracle(sv, q)
    rec.event("shape=" + "x".join(case["shape"]))
    rspecs, cspecs = _specs(part, orc, case)
    ncol = len(cspecs)
    cell = {}
    for i, rs in enumerate(rspecs):
        for j, cs in enumerate(cspecs):
            if rs[0] == "sub" or cs[0] == "sub":
                cell[i, j] = None
                continue
            pairs = [(orc.w(r, True), orc.xvalue(r)) for r in orc.cell_members(rs, cs)
                     if orc.xvalue(r) is not None]
            m = zz9enc.numeric_stat("mean", pairs)
            s = zz9enc.numeric_stat("stddev", pairs)
            cell[i, j] = (m, s, len(pairs))
    rec.nontrivial(ncol >= 2)
    T, P = {}, {}
    for a in range(ncol):
        T[a] = np.asarray(part.pairwise_significance_means_t_stats(a), dtype=float)
        P[a] = np.asarray(part.pairwise_significance_means_p_vals(a), dtype=float)
        for i in range(len(rspecs)):
            for b in range(ncol):
                g_t, g_p = T[a][i, b], P[a][i, b]
                rec.compared(2)
                if cell[i, a] is None or cell[i, b] is None:
                    if not np.isnan(g_t) or not np.isnan(g_p):
                        rec.violation("means t/p for a subtotal vector [%d,%d|sel %d] = %r/%r"
                                      % (i, b, a, g_t, g_p), "means-subtotal-not-nan")
                    continue
                (ma, sa, na), (mb, sb, nb) = cell[i, a], cell[i, b]
                if None in (ma, sa, mb, sb) or na == 0 or nb == 0:
                    continue
                va, vb = sa * sa / na, sb * sb / nb
                if va + vb <= 0:
                    continue
                want_t = (mb - ma) / math.sqrt(va + vb)
                if not close(g_t, want_t, rtol=1e-8, atol=1e-9):
                    rec.violation("means t(sel %d, cmp %d) row %d = %r, Welch statistic %r" % (
                        a, b, i, g_t, want_t), "means-t")
                    continue
                if na < 2 or nb < 2:
                    continue
                den = (va * va) / (na - 1) + (vb * vb) / (nb - 1)
                if den <= 0:
                    continue
                df = (va + vb) ** 2 / den
                want_p = t_two_sided(want_t, df)
                if not close(g_p, want_p, rtol=1e-6, atol=1e-9):
                    rec.violation("means p(sel %d, cmp %d) row %d = %r, Welch df=%r gives %r"
                                  % (a, b, i, g_p, df, want_p), "means-p")
    _check_indices(part, T, P, case["pw"], len(rspecs), ncol, rec,
                   names=("pairwise_means_indices", "pairwise_means_indices_alt"))


# ------------------------------------------------------------------------------ overlaps
@st.composite
def overlap_case_st(draw):
    sc = draw(scen.scenario_st([("cat", "mr"), ("cat", "mr"), ("mr", "mr")], measure="none",
                               max_n=30, min_n=6, min_valid=2, skew=False, max_items=3,
                               weight_kinds=("none", "int", "dyadic")))
    sc["query"]["overlaps"] = True
    sc["transforms"] = {}
    sc["insertions"] = {"rows": [], "cols": []}
    # subtotal rows on categorical rows (the overlap bases are those of the whole table)
    rvar = sc["survey"]["vars"][sc["query"]["dims"][0]["var"]]
    if rvar["type"] == "cat" and draw(st.booleans()):
        v, m = xforms.dim_ids(rvar)
        ins = draw(xforms.insertions_st(v, m, max_ins=2, allow_malformed=False,
                                        allow_diff=False))
        sc["transforms"] = {"rows_dimension": {"insertions": ins}}
        sc["insertions"]["rows"] = ins
    pw = {"alpha": draw(st.sampled_from([[0.3], [0.2, 0.6], [0.05]])),
          "only_larger": draw(st.booleans())}
    sc["transforms"]["pairwise_indices"] = pw
    sc["pw"] = pw
    return sc


def judge_overlap(case, rec):
    sv, q = case["survey"], case["query"]
    part = lib.cube(zz9enc.encode(sv, q), case["transforms"]).partitions[0]
    lib.warm(part, case.get("warmup"))
    orc = Oracle(sv, q)
    rec.event("shape=" + "x".join(case["shape"]))
    rspecs, cspecs = _specs(part, orc, case)
    ncol = len(cspecs)
    rec.nontrivial(ncol >= 2)
    mr = orc.cols.var
    rows_mr = orc.rows.kind == "mr"

    def tab(i_row, a, b):
        """S_a, S_b, S_ab, N_a, N_b, N_ab over the respondents of the row's base."""
        S = [0.0, 0.0, 0.0]
        N = [0.0, 0.0, 0.0]
        rs = rspecs[i_row]
        for r in orc.respondents():
            if rows_mr:
                # MR rows: respondents non-missing on the row item
                if orc.rows.var["answers"][r][rs[1]] == -1:
                    continue
            else:
                if orc.rows.var["answers"][r] not in orc.rows.valid_ids:
                    continue
            w = orc.w(r, True)
            sa, sb = mr["answers"][r][a], mr["answers"][r][b]
            if sa == 1:
                S[0] += w
            if sb == 1:
                S[1] += w
            if sa == 1 and sb == 1:
                S[2] += w
            if sa != -1:
                N[0] += w
            if sb != -1:
                N[1] += w
            if sa != -1 and sb != -1:
                N[2] += w
        return S, N

    Tall, Pall = {}, {}
    for a in range(ncol):
        T = np.asarray(part.pairwise_significance_t_stats(a), dtype=float)
        P = np.asarray(part.pairwise_significance_p_vals(a), dtype=float)
        for i, rs in enumerate(rspecs):
            for b in range(ncol):
                rec.compared(2)
                if a == b:
                    if not close(T[i, b], 0.0):
                        rec.violation("overlap t of a column against itself = %r" % T[i, b],
                                      "overlap-diagonal")
                    continue
                (Sa, Sb, Sab), (Na, Nb, Nab) = tab(i, a, b)
                if 0 in (Na, Nb, Nab):
                    continue
                pa, pb, pab = Sa / Na, Sb / Nb, Sab / Nab
                df = Na + Nb - Nab
                cpa = _col_stats(orc, rs, cspecs[a], False)[0]
                cpb = _col_stats(orc, rs, cspecs[b], False)[0]
                if cpa is None or cpb is None:
                    continue
                var = (pa * (1 - pa) + pb * (1 - pb) + 2 * pa * pb - 2 * pab) / df
                if var <= 0:
                    continue
                want_t = (cpb - cpa) / math.sqrt(var)
                if not close(T[i, b], want_t, rtol=1e-8, atol=1e-9):
                    rec.violation("overlap t(sel %d, cmp %d) row %d = %r; respondent-level "
                                  "S/N tabulation gives %r" % (a, b, i, T[i, b], want_t),
                                  "overlap-t")
                    continue
                want_p = t_two_sided(want_t, df - 2)
                if not close(P[i, b], want_p, rtol=1e-6, atol=1e-9):
                    rec.violation("overlap p(sel %d, cmp %d) row %d = %r expected %r" % (
                        a, b, i, P[i, b], want_p), "overlap-p")
        Tall[a], Pall[a] = T, P
        for b in range(ncol):
            Tb = np.asarray(part.pairwise_significance_t_stats(b), dtype=float)
            for i in range(len(rspecs)):
                x, y = T[i, b], Tb[i, a]
                if np.isnan(x) or np.isnan(y):
                    continue
                rec.compared()
                if not close(x, -y, rtol=1e-8, atol=1e-9):
                    rec.violation("overlap t(%d,%d)=%r is not -t(%d,%d)=%r" % (a, b, x, b, a, y),
                                  "overlap-antisymmetry")
    # --- index sets: other columns below alpha, never the column itself
    for a in range(ncol):
        Pall[a] = Pall[a].copy()
        Pall[a][:, a] = 1.0   # a column is not compared with itself
    _check_indices(part, Tall, Pall, case["pw"], len(rspecs), ncol, rec,
                   self_sig="overlap-own-column-in-index-set")


SUBCHECKS = [
    SubCheck("proportions", case_st(), judge_stat, quick=2400, thorough=30000),
    SubCheck("means", means_case_st(), judge_means, quick=1200, thorough=16000),
    SubCheck("overlaps", overlap_case_st(), judge_overlap, quick=1200, thorough=16000),
]
