"""C14 - scale mean, median, standard deviation and error from category numeric values."""
import math

import numpy as np
from hypothesis import strategies as st

from engine import lib, scen, xforms, zz9enc
from engine.cmp import close
from engine.oracle import Oracle, apparent_dims
from engine.runner import SubCheck
from props.c02 import _specs

PROPERTY = "C14"
RULE = (
    "Random surveys whose categories carry numeric values (partial, repeated, negative, "
    "unsorted, with zero-count categories between populated ones), unweighted / integer / "
    "dyadic weights; for every row and column vector (incl. subtotals) the multiset of the "
    "opposing numeric values of the individual respondents counted in the vector is built "
    "and its weighted mean, population std-dev, median (integer counts) and std-err "
    "(std-dev / sqrt(weighted margin)) compared with the scale outputs of slices; same for "
    "strands; None when no category has a numeric value, NaN (None for a strand) when the "
    "vector has no numeric-valued respondents. Non-trivial: a vector whose cumulative share "
    "hits exactly 50% or a zero-count category inside the value range."
)
BOUNDS = "respondents 0..24, valid categories 1..5, items 1..3, insertions 0..2"
ASSUMPTIONS = [
    "the median is judged only for integer counts (unweighted or integer weights)",
    "the *_margin scalars are judged on CAT x CAT only and without hidden vectors (see the "
    "C05 known finding for their behaviour under hiding)",
    "difference vectors are not judged (the statement defines subtotals as unions)",
]

SHAPES = [("cat", "cat")] * 5 + [("mr", "cat"), ("cat", "mr"), ("cai", "cac"), ("cac", "cai"),
                                  ("cat_date", "cat"), ("cat", "cat_date"),
                                  # 3-D: the scale statistics of every slice of one cube
                                  ("cat", "cat", "cat"), ("mr", "cat", "cat"), ("cat", "cat", "mr")]


@st.composite
def case_st(draw, shapes):
    numeric = draw(st.sampled_from(["some", "some", "all", "none"]))
    sc = draw(scen.scenario_st(shapes, measure="none", numeric=numeric, max_valid=5,
                               weight_kinds=("none", "none", "int", "dyadic", "tenths"),
                               skew=draw(st.booleans())))
    sv, q = sc["survey"], sc["query"]
    if len(q["dims"]) == 2 and draw(st.integers(0, 2)) == 0:
        # exact half splits: within each column, half of the respondents at or below some
        # numeric value and half above it (where a median averages two neighbours - or
        # must not, when the neighbour is empty)
        rvar, cvar = sv["vars"][q["dims"][0]["var"]], sv["vars"][q["dims"][1]["var"]]
        if rvar["type"] == "cat" and cvar["type"] == "cat":
            valued = sorted([c for c in rvar["cats"] if not c["missing"] and c["value"] is not None],
                            key=lambda c: c["value"])
            if len(valued) >= 2:
                k = draw(st.integers(1, len(valued) - 1))
                low, high = [c["id"] for c in valued[:k]], [c["id"] for c in valued[k:]]
                for cid in set(cvar["answers"]):
                    rs = [r for r in range(sv["n"]) if cvar["answers"][r] == cid]
                    half = len(rs) // 2
                    for pos, r in enumerate(rs[:2 * half]):
                        rvar["answers"][r] = draw(st.sampled_from(low if pos < half else high))
                sc["half_split"] = True
    tx, inforce = draw(xforms.slice_insertions_st(sc, where="either", max_ins=3,
                                                  allow_malformed=False, allow_diff=True))
    sc["transforms"] = tx
    sc["insertions"] = inforce
    sc["read_order"] = draw(st.permutations(
        ["scale_mean", "scale_mean_stddev", "scale_mean_stderr", "scale_median"]))
    return sc


def stats_of(pairs, integer):
    """(mean, stddev, median|'skip') of [(w, v)]; None when empty."""
    pairs = [(w, v) for w, v in pairs if w != 0]
    sw = sum(w for w, _ in pairs)
    if sw <= 0:
        return None
    mean = sum(w * v for w, v in pairs) / sw
    sd = math.sqrt(sum(w * (v - mean) ** 2 for w, v in pairs) / sw)
    if integer:
        xs = []
        for w, v in pairs:
            xs.extend([v] * int(w))
        xs.sort()
        m = len(xs)
        med = xs[m // 2] if m % 2 else (xs[m // 2 - 1] + xs[m // 2]) / 2.0
    else:
        med = "skip"
    return mean, sd, med


def _halfway_event(pairs, rec):
    pairs = sorted((v, w) for w, v in pairs if w)
    tot = sum(w for _, w in pairs)
    if tot:
        c = 0
        for v, w in pairs:
            c += w
            if c * 2 == tot:
                rec.nontrivial()
                rec.event("cumulative share exactly 50%")
                return


def judge_slice(case, rec):
    """Every slice of the cube is judged against its own respondents (3-D: one slice per
    table element, read one after the other on the same cube)."""
    sv, q = case["survey"], case["query"]
    parts = lib.cube(zz9enc.encode(sv, q), case["transforms"]).partitions
    rec.event("shape=" + "x".join(case["shape"]))
    dims = apparent_dims(sv, q)
    tkeys = dims[0].keys if len(dims) == 3 else [None]
    if len(dims) == 3 and len(parts) > 1:
        rec.event("3-D: several slices")
    for part, tkey in zip(parts, tkeys):
        _judge_slice_part(case, rec, part, Oracle(sv, q, table_key=tkey))


def _judge_slice_part(case, rec, part, orc):
    sv, q = case["survey"], case["query"]
    lib.warm(part, case.get("warmup"))
    rspecs, cspecs = _specs(part, orc, case)
    integer = orc.W is None or all(float(w).is_integer() for w in sv["weights"])
    for axis in (0, 1):
        own_specs, opp_dim = (rspecs, orc.cols) if axis == 0 else (cspecs, orc.rows)
        prefix = "rows" if axis == 0 else "columns"
        values = opp_dim.numeric_values()
        got = {n: getattr(part, "%s_%s" % (prefix, n))
               for n in case.get("read_order", ("scale_mean", "scale_mean_stddev",
                                                "scale_mean_stderr", "scale_median"))}
        # a second read of each must not differ from the first (no in-place edits)
        for n in list(got):
            again = getattr(part, "%s_%s" % (prefix, n))
            if (got[n] is None) != (again is None) or (
                    got[n] is not None and not np.array_equal(
                        np.asarray(got[n], dtype=float), np.asarray(again, dtype=float),
                        equal_nan=True)):
                rec.violation("%s_%s changes between two reads: %r then %r" % (
                    prefix, n, got[n], again), "reread")
        has_values = any(v is not None for v in values)
        margin = getattr(part, "%s_margin" % prefix)
        rec.compared()
        if not has_values:
            for n, g in got.items():
                if g is not None:
                    rec.violation("%s_%s = %r although no opposing category has a numeric "
                                  "value" % (prefix, n, g), "not-none")
            continue
        if got["scale_mean"] is None:
            rec.violation("%s_scale_mean is None although numeric values exist" % prefix,
                          "none")
            continue
        # zero-count category strictly inside the value range
        for k, spec in enumerate(own_specs):
            if orc.is_diff(spec):
                continue
            pairs = []
            zero_inside = False
            per_cat = []
            for ok, v in zip(opp_dim.keys, values):
                if v is None:
                    continue
                rs, cs = (spec, ("el", ok)) if axis == 0 else (("el", ok), spec)
                ws = [orc.w(r, True) for r in orc.cell_members(rs, cs)]
                per_cat.append((v, sum(ws)))
                pairs.extend((w, v) for w in ws)
            per_cat.sort()
            nz = [i for i, (_, c) in enumerate(per_cat) if c > 0]
            if nz and any(c == 0 for _, c in per_cat[nz[0]:nz[-1] + 1]):
                zero_inside = True
                rec.nontrivial()
                rec.event("zero-count category inside the value range")
            _halfway_event(pairs, rec)
            st_ = stats_of(pairs, integer)
            g_mean = float(np.asarray(got["scale_mean"], dtype=float)[k])
            g_sd = float(np.asarray(got["scale_mean_stddev"], dtype=float)[k])
            g_med = float(np.asarray(got["scale_median"], dtype=float)[k])
            rec.compared(3)
            if st_ is None:
                if not (np.isnan(g_mean) and np.isnan(g_sd) and np.isnan(g_med)):
                    rec.violation("%s vector %d has no numeric-valued respondents but scale "
                                  "mean/stddev/median = %r/%r/%r" % (prefix, k, g_mean, g_sd,
                                                                     g_med), "not-nan")
                continue
            mean, sd, med = st_
            if not close(g_mean, mean):
                rec.violation("%s_scale_mean[%d] = %r; respondents' mean %r (%r)" % (
                    prefix, k, g_mean, mean, spec), "mean")
            if not close(g_sd, sd):
                rec.violation("%s_scale_mean_stddev[%d] = %r; population std-dev %r" % (
                    prefix, k, g_sd, sd), "stddev")
            if med != "skip" and not close(g_med, med):
                rec.violation(
                    "%s_scale_median[%d] = %r; median of the respondents' values %r "
                    "(value/count per category %r)" % (prefix, k, g_med, med, per_cat),
                    "median")
            if got["scale_mean_stderr"] is not None and np.asarray(margin).ndim == 1:
                m = float(np.asarray(margin, dtype=float)[k])
                g_se = float(np.asarray(got["scale_mean_stderr"], dtype=float)[k])
                want = None if (np.isnan(m) or m <= 0) else sd / math.sqrt(m)
                rec.compared()
                if want is not None and not close(g_se, want):
                    rec.violation("%s_scale_mean_stderr[%d] = %r; stddev %r / sqrt(margin %r)"
                                  " = %r" % (prefix, k, g_se, sd, m, want), "stderr")
    # --- margins of the scale statistics (CAT x CAT)
    if not orc.rows.is_array and not orc.cols.is_array:
        for prefix, own_dim, opp_dim in (("rows", orc.rows, orc.cols),
                                         ("columns", orc.cols, orc.rows)):
            values = opp_dim.numeric_values()
            g_mean = getattr(part, "%s_scale_mean_margin" % prefix)
            g_med = getattr(part, "%s_scale_median_margin" % prefix)
            if not any(v is not None for v in values):
                rec.compared()
                if g_mean is not None or g_med is not None:
                    rec.violation("%s scale margins %r/%r without numeric values" % (
                        prefix, g_mean, g_med), "margin-not-none")
                continue
            pairs = []
            for ok, v in zip(opp_dim.keys, values):
                if v is None:
                    continue
                for r in orc.respondents():
                    ctx = orc.ctx(None, None)
                    if orc.member(opp_dim, r, ok, ctx) and orc.valid_on(own_dim, r, None, ctx):
                        pairs.append((orc.w(r, True), v))
            st_ = stats_of(pairs, integer)
            rec.compared(2)
            if st_ is None:
                continue
            if not close(g_mean, st_[0]):
                rec.violation("%s_scale_mean_margin = %r; respondents' mean %r" % (
                    prefix, g_mean, st_[0]), "mean-margin")
            if st_[2] != "skip" and not close(g_med, st_[2]):
                rec.violation("%s_scale_median_margin = %r; respondents' median %r" % (
                    prefix, g_med, st_[2]), "median-margin")


def judge_strand(case, rec):
    sv, q = case["survey"], case["query"]
    part = lib.cube(zz9enc.encode(sv, q), case["transforms"]).partitions[0]
    lib.warm(part, case.get("warmup"))
    orc = Oracle(sv, q)
    rec.event("shape=" + "x".join(case["shape"]))
    integer = orc.W is None or all(float(w).is_integer() for w in sv["weights"])
    values = orc.rows.numeric_values()
    got = (part.scale_mean, part.scale_std_dev, part.scale_std_err, part.scale_median)
    rec.compared()
    if not any(v is not None for v in values):
        if any(g is not None for g in got):
            rec.violation("strand scale statistics %r without numeric values" % (got,),
                          "not-none1")
        return
    pairs = []
    per_cat = []
    for k, v in zip(orc.rows.keys, values):
        if v is None:
            continue
        ws = [orc.w(r, True) for r in orc.members1(("el", k))]
        pairs.extend((w, v) for w in ws)
        per_cat.append((v, sum(ws)))
    _halfway_event(pairs, rec)
    rec.nontrivial(len([1 for _, c in per_cat if c > 0]) >= 2)
    st_ = stats_of(pairs, integer)
    if st_ is None:
        for name, g in zip(("scale_mean", "scale_std_dev", "scale_std_err", "scale_median"),
                           got):
            rec.compared()
            if g is not None:
                rec.violation("strand %s = %r for a variable without numeric-valued "
                              "respondents (must be None)" % (name, g), "not-none-empty:" + name)
        return
    mean, sd, med = st_
    sw = sum(w for w, _ in pairs)
    rec.compared(4)
    if not close(got[0], mean):
        rec.violation("strand scale_mean %r; respondents' mean %r" % (got[0], mean), "mean1")
    if not close(got[1], sd):
        rec.violation("strand scale_std_dev %r; population std-dev %r" % (got[1], sd),
                      "stddev1")
    if not close(got[2], sd / math.sqrt(sw)):
        rec.violation("strand scale_std_err %r; %r / sqrt(%r)" % (got[2], sd, sw), "stderr1")
    if med != "skip" and not close(got[3], med):
        rec.violation("strand scale_median %r; respondents' median %r (%r)" % (
            got[3], med, sorted(per_cat)), "median1")


SUBCHECKS = [
    SubCheck("slices", case_st(SHAPES), judge_slice, quick=3200, thorough=40000),
    SubCheck("strands", case_st([("cat",), ("cat",), ("cat_date",)]), judge_strand, quick=1600,
             thorough=20000),
]
