"""C12 - residual z-scores and p-values are adjusted standardized residuals."""
import copy
import math

import numpy as np
from hypothesis import strategies as st

from engine import lib, scen, xforms, zz9enc
from engine.cmp import close
from engine.oracle import Oracle, apparent_dims
from engine.runner import SubCheck
from props.c02 import _specs
from props.c04 import exact_rank

PROPERTY = "C12"
RULE = (
    "Random weighted surveys over all pairings (per-cell bases for MR), with subtotal rows / "
    "columns, incl. single row/column, proportional or duplicated rows and empty margins; "
    "each cell's z-score is recomputed from the respondent-level count and row / column / "
    "table bases with the statement's formula, p = erfc(|z|/sqrt 2); 2x2 tables: z^2 = Pearson "
    "chi-square; exact rational rank of the base counts < 2 => NaN everywhere. Non-trivial: "
    "rank >= 2 with some |z| > 0, or a degenerate table (both classes counted)."
)
BOUNDS = "respondents 0..30, valid categories 1..4, items 1..3, insertions 0..2"
ASSUMPTIONS = [
    "sub-check decimal-weights uses non-dyadic weights (tenths); the exact rank is decided on "
    "the integer tenths, zero-denominator cells are not judged there",
    "cells whose formula denominator is exactly 0 are only required to be non-finite",
    "integer / dyadic weights make rank and zero denominators exactly decidable",
]
SHAPES = [("cat", "cat")] * 5 + [("cat", "mr"), ("mr", "cat"), ("mr", "mr"), ("cai", "cac"),
                                  ("cac", "cai"), ("cat_date", "cat"), ("cat", "cat", "cat"),
                                  ("mr", "cat", "mr")]


@st.composite
def case_st(draw):
    rich = draw(st.integers(0, 3)) > 0
    sc = draw(scen.scenario_st(SHAPES, measure="none", max_n=30,
                               weight_kinds=("none", "int", "dyadic", "tenths"),
                               min_valid=2 if rich else 1, skew=not rich,
                               min_n=8 if rich else 0))
    sv = sc["survey"]
    # --- degenerate shapes on purpose: duplicate / proportional answers
    if draw(st.integers(0, 5)) == 0:
        for var in sv["vars"].values():
            if var["type"] == "cat" and var["answers"]:
                var["answers"] = [var["answers"][0]] * len(var["answers"])
                break
    tx, inforce = draw(xforms.slice_insertions_st(sc, where="transforms", max_ins=3,
                                                  allow_malformed=False, allow_diff=True))
    sc["transforms"] = tx
    sc["insertions"] = inforce
    return sc


def formula(count, rb, cb, tb):
    """(z, kind) kind in ok | zero-denominator | undefined"""
    if count is None or rb is None or cb is None or tb is None:
        return None, "undefined"
    if tb == 0:
        return None, "zero-denominator"
    e = rb * cb / tb
    d = e * (1 - rb / tb) * (1 - cb / tb)
    if d <= 0:
        return None, "zero-denominator"
    return (count - e) / math.sqrt(d), "ok"


def judge(case, rec):
    sv, q = case["survey"], case["query"]
    cube = lib.cube(zz9enc.encode(sv, q), case["transforms"])
    dims = apparent_dims(sv, q)
    rec.event("shape=" + "x".join(case["shape"]))
    tkeys = dims[0].keys if len(dims) == 3 else [None]
    # weights in tenths are not exactly representable: decide which cells are 0/0 - and
    # compute the statistic - on the same survey with every weight multiplied by ten
    # (integers, exact); a z-score scales with the square root of the weight scale
    scale = 1.0
    svx = sv
    if q.get("weighted") and sv["weights"] and any(
            float(w * 8) != int(w * 8) for w in sv["weights"]):
        svx = copy.deepcopy(sv)
        svx["weights"] = [int(round(w * 10)) for w in sv["weights"]]
        scale = math.sqrt(10.0)
        rec.event("inexact weights")
    for part, tkey in zip(cube.partitions, tkeys):
        lib.warm(part, case.get("warmup"))
        orc = Oracle(svx, q, table_key=tkey)
        rspecs, cspecs = _specs(part, orc, case)
        Z = np.asarray(part.zscores, dtype=float)
        P = np.asarray(part.pvals, dtype=float)
        RS = np.asarray(part.residual_test_stats, dtype=float)
        base = [[orc.count(("el", rk), ("el", ck), True) for ck in orc.cols.keys]
                for rk in orc.rows.keys]
        rank = exact_rank(base) if base and base[0] else 0
        rec.compared()
        if RS.shape != (2,) + Z.shape or not _same(RS[0], P) or not _same(RS[1], Z):
            rec.violation("residual_test_stats is not [pvals, zscores]", "stacked")
        if rank < 2:
            rec.nontrivial()
            rec.event("degenerate table")
            rec.compared()
            if not (np.all(np.isnan(Z)) and np.all(np.isnan(P))):
                rec.violation("table of rank %d (< 2 independent rows/columns) reports "
                              "z-scores %r" % (rank, Z.tolist()), "degenerate-not-nan")
            continue
        any_nonzero = False
        for i, rs in enumerate(rspecs):
            for j, cs in enumerate(cspecs):
                rd, cd = orc.is_diff(rs), orc.is_diff(cs)
                cnt = None if (rd and cd) else orc.count(rs, cs, True)
                rb = None if rd else orc.row_base(rs, cs, True)
                cb = None if cd else orc.col_base(rs, cs, True)
                tb = orc.table_base(rs, cs, True)
                z, kind = formula(cnt, rb, cb, tb)
                if kind == "ok":
                    z = z / scale
                g = Z[i, j]
                rec.compared(2)
                if kind == "ok":
                    if not close(g, z, rtol=1e-8, atol=1e-8):
                        # a whole block may legitimately be NaN when every cell of it has
                        # a row (or column) share of 1; then z is not finite for any cell
                        rec.violation(
                            "zscores[%d,%d] = %r; adjusted standardized residual from "
                            "count %r, row/column/table bases %r/%r/%r is %r" % (
                                i, j, g, cnt, rb, cb, tb, z), "zscore")
                    if abs(z) > 1e-9:
                        any_nonzero = True
                    want_p = math.erfc(abs(z) / math.sqrt(2))
                    if not close(P[i, j], want_p, rtol=1e-7, atol=1e-9):
                        rec.violation("pvals[%d,%d] = %r, two-sided normal tail of z=%r is %r"
                                      % (i, j, P[i, j], z, want_p), "pvalue")
                    if not (0 <= P[i, j] <= 1):
                        rec.violation("pvals[%d,%d] = %r outside [0,1]" % (i, j, P[i, j]),
                                      "pvalue-range")
                else:
                    if not np.isnan(g):
                        rec.violation("zscores[%d,%d] = %r although the statistic is %s "
                                      "(bases %r/%r/%r)" % (i, j, g, kind, rb, cb, tb),
                                      "finite-" + kind)
        if any_nonzero:
            rec.nontrivial()
            rec.event("rank>=2, nonzero z")
        # --- 2 x 2 categorical tables: z^2 is the Pearson chi-square statistic
        if orc.rows.kind == "cat" and orc.cols.kind == "cat" and orc.rows.n == 2 \
                and orc.cols.n == 2:
            n = sum(sum(r) for r in base)
            rt = [sum(r) for r in base]
            ct = [base[0][k] + base[1][k] for k in range(2)]
            if n > 0 and all(rt) and all(ct):
                chi2 = sum((base[a][b] - rt[a] * ct[b] / n) ** 2 / (rt[a] * ct[b] / n)
                           for a in range(2) for b in range(2))
                pos = {s: k for k, s in enumerate(rspecs) if s[0] == "el"}
                cpos = {s: k for k, s in enumerate(cspecs) if s[0] == "el"}
                for a, rk in enumerate(orc.rows.keys):
                    for b, ck in enumerate(orc.cols.keys):
                        g = Z[pos[("el", rk)], cpos[("el", ck)]]
                        rec.compared()
                        if not close(g * g, chi2 / (scale * scale), rtol=1e-7, atol=1e-8):
                            rec.violation("2x2 table: z^2 = %r but Pearson chi-square = %r" % (
                                g * g, chi2), "chisquare")
                rec.event("2x2 chi-square")


def _same(a, b):
    a, b = np.asarray(a, dtype=float), np.asarray(b, dtype=float)
    return a.shape == b.shape and all(close(x, y) for x, y in zip(a.ravel(), b.ravel()))


# ------------------------------------------------------------------ decimal weights
@st.composite
def proportional_case_st(draw):
    """CAT x CAT table with NON-dyadic weights whose rows are exactly proportional (rank 1
    in exact arithmetic, not in binary floating point), optionally with one perturbed cell
    (rank 2).  One respondent per cell, weight = row multiplier x column profile."""
    nr = draw(st.integers(2, 4))
    nc = draw(st.integers(2, 4))
    profile = [draw(st.integers(1, 20)) for _ in range(nc)]      # tenths
    mult = [draw(st.sampled_from([1, 3, 7, 5, 11, 13])) for _ in range(nr)]
    perturb = draw(st.booleans())
    weights, ra, ca = [], [], []
    exact = [[0] * nc for _ in range(nr)]
    for i in range(nr):
        for j in range(nc):
            tenths = mult[i] * profile[j]
            if perturb and i == 0 and j == 0:
                tenths += 1
            exact[i][j] = tenths
            weights.append(tenths / 10.0 if draw(st.booleans()) else mult[i] * (profile[j] / 10.0)
                           if not (perturb and i == 0 and j == 0) else tenths / 10.0)
            ra.append(i + 1)
            ca.append(j + 1)
    def var(alias, k, answers):
        return {"type": "cat", "flavour": "cat", "alias": alias, "name": alias.upper(),
                "cats": [{"id": x + 1, "name": "%s%d" % (alias, x), "missing": False,
                          "value": None} for x in range(k)],
                "answers": answers, "use_order_key": False, "view_insertions": None}
    sv = {"n": len(weights), "weights": weights,
          "vars": {"r": var("r", nr, ra), "c": var("c", nc, ca)}}
    q = {"dims": [{"var": "r"}, {"var": "c"}], "weighted": True}
    return {"survey": sv, "query": q, "shape": ["cat", "cat"], "exact_tenths": exact,
            "perturbed": perturb}


def judge_proportional(case, rec):
    sv, q = case["survey"], case["query"]
    part = lib.cube(zz9enc.encode(sv, q)).partitions[0]
    Z = np.asarray(part.zscores, dtype=float)
    P = np.asarray(part.pvals, dtype=float)
    exact = case["exact_tenths"]
    rank = exact_rank(exact)
    rec.nontrivial()
    rec.event("exact rank %d" % rank)
    rec.compared()
    if rank < 2:
        if not (np.all(np.isnan(Z)) and np.all(np.isnan(P))):
            rec.violation(
                "rows are exactly proportional (weights in tenths %r): the table lacks two "
                "independent rows, yet z-scores %r / p-values %r are reported" % (
                    exact, Z.tolist(), P.tolist()), "degenerate-decimal-not-nan")
        return
    tot = sum(sum(r) for r in exact)
    rt = [sum(r) for r in exact]
    ct = [sum(exact[i][j] for i in range(len(exact))) for j in range(len(exact[0]))]
    for i in range(len(exact)):
        for j in range(len(exact[0])):
            z, kind = formula(exact[i][j] / 10.0, rt[i] / 10.0, ct[j] / 10.0, tot / 10.0)
            rec.compared()
            if kind == "ok" and not close(Z[i, j], z, rtol=1e-7, atol=1e-7):
                rec.violation("decimal weights: zscores[%d,%d] = %r, formula gives %r" % (
                    i, j, Z[i, j], z), "zscore-decimal")


SUBCHECKS = [
    SubCheck("residuals", case_st(), judge, quick=8000, thorough=100000),
    SubCheck("decimal-weights", proportional_case_st(), judge_proportional, quick=1600,
             thorough=20000),
]
