"""C11 - variance, standard error and margin of error of proportions."""
import math

import numpy as np
from hypothesis import strategies as st

from engine import lib, scen, xforms, zz9enc
from engine.cmp import close
from engine.oracle import Oracle, apparent_dims
from engine.runner import SubCheck
from props.c02 import _specs

PROPERTY = "C11"
RULE = (
    "Random weighted surveys, all pairings, with subtotals, differences and intersections; "
    "for every cell and each of the row / column / table directions the variance is "
    "recomputed as the weighted variance, among the respondents of that proportion's base, "
    "of the +1/-1/0 indicator (product of signs for intersections), and std-dev, std-err "
    "(sqrt(var / weighted base)) and MoE (1.959964 x std-err) from it; compared with the "
    "public outputs of slices and strands; non-negative; NaN where base or proportion is "
    "undefined. Non-trivial: a difference or intersection cell with a positive base, or "
    "non-unit weights."
)
BOUNDS = "respondents 0..24, valid categories 1..4, items 1..3, insertions 0..3"
ASSUMPTIONS = [
    "differences on a categorical-date dimension (wave differences) are not judged here: "
    "their proportion is a difference of percentages, for which the statement defines no "
    "variance",
    "own-direction statistics of a difference vector are NaN (its base is undefined)",
    "tolerance 1e-9 relative+absolute; dyadic weights keep sums exact",
]
Z975 = 1.959964
SHAPES = scen.SHAPES_2D * 2 + [("cat", "cat", "cat"), ("mr", "cat", "mr")]


NAMES = {
    "row": ("row_proportion_variances", "row_std_dev", "row_std_err", "row_proportions_moe"),
    "col": ("column_proportion_variances", "column_std_dev", "column_std_err",
            "column_proportions_moe"),
    "table": ("table_proportion_variances", "table_std_dev", "table_std_err",
              "table_proportions_moe"),
}


@st.composite
def case_st(draw, shapes):
    sc = draw(scen.scenario_st(shapes, measure="maybe",
                               weight_kinds=("none", "int", "dyadic", "tenths")))
    tx, inforce = draw(xforms.slice_insertions_st(sc, where="either", allow_malformed=False))
    sc["transforms"] = tx
    sc["insertions"] = inforce
    # the outputs are read in a drawn order and each is read twice: one output must not
    # disturb another (in-place edits of cached intermediates)
    allnames = [n for names in NAMES.values() for n in names]
    sc["read_order"] = draw(st.permutations(allnames))
    sc["strand_read_order"] = draw(st.permutations(
        ["table_proportion_stddevs", "table_proportion_stderrs", "table_proportion_moes"]))
    return sc


def _moments(orc, base_pred, indicator):
    sw = swi = 0.0
    rows = []
    for r in orc.respondents():
        if base_pred(r):
            w = orc.w(r, True)
            i = indicator(r)
            rows.append((w, i))
            sw += w
            swi += w * i
    if sw == 0:
        return None, 0
    p = swi / sw
    var = sum(w * (i - p) ** 2 for w, i in rows) / sw
    return var, sw


def expected(orc, direction, rs, cs):
    """(variance, weighted base) or (None, base) when undefined."""
    ctx = orc.ctx(orc.spec_key(rs), orc.spec_key(cs))
    rk, ck = orc.spec_key(rs), orc.spec_key(cs)
    R, C = orc.rows, orc.cols
    rd, cd = orc.is_diff(rs), orc.is_diff(cs)
    if (rd and R.var.get("flavour") == "cat_date") or (cd and C.var.get("flavour") == "cat_date"):
        return "skip", None  # wave differences: proportions follow their own rule (C04)
    if rd and cd:
        return None, None
    m = orc.query.get("measure")
    if (rd or cd) and m and (m.get("valid_counts", True) or orc.mvar["type"] == "numarr"):
        return None, None  # a difference's count (hence proportion) is NaN with valid counts
    if direction == "row":
        if rd:
            return None, None
        return _moments(
            orc, lambda r: orc.in_union(R, r, rs, ctx) and orc.valid_on(C, r, ck, ctx),
            lambda r: orc.sign(C, r, cs, ctx))
    if direction == "col":
        if cd:
            return None, None
        return _moments(
            orc, lambda r: orc.in_union(C, r, cs, ctx) and orc.valid_on(R, r, rk, ctx),
            lambda r: orc.sign(R, r, rs, ctx))
    return _moments(
        orc, lambda r: orc.valid_on(R, r, rk, ctx) and orc.valid_on(C, r, ck, ctx),
        lambda r: orc.sign(R, r, rs, ctx) * orc.sign(C, r, cs, ctx))


def _overlap(*specs):
    """An insertion that lists the same id as addend and as subtrahend."""
    return any(s[0] == "sub" and set(s[2]) & set(s[3]) for s in specs)




def _close_root(v, w, root):
    """`close`, except that a quantity that is a square ROOT of the variance is compared in
    the variance domain when it is tiny: with weights that are not exactly representable the
    variance of a constant indicator is 0 +- 1e-16, and the root turns that into 1e-8."""
    if close(v, w):
        return True
    if not root or v is None or w is None:
        return False
    try:
        v, w = float(v), float(w)
    except (TypeError, ValueError):
        return False
    if math.isnan(v) or math.isnan(w) or v < 0 or w < 0:
        return False
    return abs(v * v - w * w) <= 1e-12


def judge_slice(case, rec):
    sv, q = case["survey"], case["query"]
    cube = lib.cube(zz9enc.encode(sv, q), case["transforms"])
    dims = apparent_dims(sv, q)
    rec.event("shape=" + "x".join(case["shape"]))
    if q.get("weighted") and sv["weights"] and any(w != 1 for w in sv["weights"]):
        rec.nontrivial()
    tkeys = dims[0].keys if len(dims) == 3 else [None]
    for part, tkey in zip(cube.partitions, tkeys):
        lib.warm(part, case.get("warmup"))
        orc = Oracle(sv, q, table_key=tkey)
        rspecs, cspecs = _specs(part, orc, case)
        pre = {}
        for n in case.get("read_order") or [n for ns in NAMES.values() for n in ns]:
            pre[n] = np.array(getattr(part, n), dtype=float)
        for n in pre:
            again = np.asarray(getattr(part, n), dtype=float)
            if not np.array_equal(pre[n], again, equal_nan=True):
                rec.violation("%s changes between two reads" % n, "reread")
        for direction, names in NAMES.items():
            got = [pre[n] for n in names]
            for i, rs in enumerate(rspecs):
                for j, cs in enumerate(cspecs):
                    var, base = expected(orc, direction, rs, cs)
                    if var == "skip":
                        continue
                    if var is None:
                        want = (None, None, None, None)
                    else:
                        se = math.sqrt(var / base)
                        want = (var, math.sqrt(var), se, Z975 * se)
                        if (rs[0] == "sub" or cs[0] == "sub") and base > 0:
                            if orc.is_diff(rs) or orc.is_diff(cs) or \
                                    (rs[0] == "sub" and cs[0] == "sub"):
                                rec.nontrivial()
                                rec.event("difference/intersection cell")
                    for g, w_, n in zip(got, want, names):
                        rec.compared()
                        v = g[i, j]
                        if not _close_root(v, w_, root=n != names[0]):
                            rec.violation(
                                "%s[%d,%d] = %r; respondent-level value %r (row %r, col %r)"
                                % (n, i, j, v, w_, rs, cs),
                                "overlapping-addend-subtrahend" if _overlap(rs, cs) else n)
                        if not np.isnan(v) and v < -1e-12:
                            rec.violation("%s[%d,%d] = %r is negative" % (n, i, j, v),
                                          "negative-" + n)


def judge_strand(case, rec):
    sv, q = case["survey"], case["query"]
    part = lib.cube(zz9enc.encode(sv, q), case["transforms"]).partitions[0]
    lib.warm(part, case.get("warmup"))
    orc = Oracle(sv, q)
    rec.event("shape=" + "x".join(case["shape"]))
    if q.get("weighted") and sv["weights"] and any(w != 1 for w in sv["weights"]):
        rec.nontrivial()
    rspecs = lib.display_specs(part.row_order(), part.row_labels, orc.rows,
                               case["insertions"]["rows"])
    pre = {}
    for n in case.get("strand_read_order") or ["table_proportion_stddevs",
                                               "table_proportion_stderrs",
                                               "table_proportion_moes"]:
        pre[n] = np.array(getattr(part, n), dtype=float)
    for n in pre:
        if not np.array_equal(pre[n], np.asarray(getattr(part, n), dtype=float), equal_nan=True):
            rec.violation("strand %s changes between two reads" % n, "reread1")
    sd, se, moe = (pre["table_proportion_stddevs"], pre["table_proportion_stderrs"],
                   pre["table_proportion_moes"])
    R = orc.rows
    for i, rs in enumerate(rspecs):
        key = orc.spec_key(rs)
        ctx = orc.ctx(key, None)
        if rs[0] == "sub":
            rec.nontrivial()
        if orc.is_diff(rs) and R.var.get("flavour") == "cat_date":
            continue
        var, base = _moments(orc, lambda r: orc.valid_on(R, r, key, ctx),
                             lambda r: orc.sign(R, r, rs, ctx))
        m = q.get("measure")
        if orc.is_diff(rs) and m and m.get("valid_counts", True):
            continue  # strand differences with valid counts: see the C04 known finding
        if var is None:
            want = (None, None, None)
        else:
            e = math.sqrt(var / base)
            want = (math.sqrt(var), e, Z975 * e)
        for g, w_, n in zip((sd, se, moe), want, ("table_proportion_stddevs",
                                                  "table_proportion_stderrs",
                                                  "table_proportion_moes")):
            rec.compared()
            if not _close_root(g[i], w_, root=True):
                rec.violation("strand %s[%d] = %r; respondent-level value %r (%r)" % (
                    n, i, g[i], w_, rs),
                    "overlapping-addend-subtrahend" if _overlap(rs, rs) else n)
            if not np.isnan(g[i]) and g[i] < -1e-12:
                rec.violation("strand %s[%d] negative" % (n, i), "negative1")


SUBCHECKS = [
    SubCheck("slices", case_st(SHAPES), judge_slice, quick=8000, thorough=100000),
    SubCheck("strands", case_st([("cat",), ("mr",), ("cat_date",), ("text",)]), judge_strand,
             quick=1200, thorough=16000),
]
