"""C17 - population estimates scale the right proportion by population and filter share."""
import copy
import math

import numpy as np
from hypothesis import strategies as st

from engine import lib, scen, xforms, zz9enc
from engine.cmp import close
from engine.oracle import Oracle, apparent_dims
from engine.runner import SubCheck
from props.c02 import _specs

PROPERTY = "C17"
RULE = (
    "Random surveys, categorical-date on rows / columns / neither (slices and strands), any "
    "population value in {None, 0, 1, 1000, 12345.5} and every shape of the filter block "
    "(absent, old style, new style, zeros, nulls where documented); the filtered fraction is "
    "recomputed by the statement's cascade; estimates must equal population x fraction x "
    "(table proportion | proportion within each date | 1 for a categorical-date strand) and "
    "the MoE 1.959964 x population x fraction x the matching std-err, differences NaN; "
    "metamorphic: multiplying the population by c multiplies the estimates by c. "
    "Non-trivial: fraction not in {1, NaN} or a categorical-date dimension."
)
BOUNDS = "respondents 0..24, valid categories 1..4, items 1..3, insertions 0..2"
ASSUMPTIONS = [
    "nulls are generated at every level of the filter statistics (containers, weighted_n, "
    "selected / other)",
    "both dimensions categorical-date: only the fraction and linearity are asserted",
    "proportions and std-errs of the same run are used as the population proportion / error "
    "(they are tied to respondents by C03 / C11)",
]
Z975 = 1.959964
SHAPES = [("cat", "cat")] * 3 + [("cat_date", "cat"), ("cat", "cat_date"), ("cat_date", "mr"),
                                  ("mr", "cat_date"), ("cat", "mr"), ("mr", "cat"),
                                  ("cat_date", "cat_date"), ("mr", "mr")]

NUM = st.sampled_from([0, 0, 1, 3, 7.5, 10, 12])


@st.composite
def filter_block_st(draw):
    kind = draw(st.sampled_from(["absent", "old", "old", "new", "new", "new-null", "both",
                                 "new-empty"]))
    extras = {}
    if kind in ("old", "both", "new-null", "new-empty"):
        f = draw(st.one_of(st.none(), NUM))
        u = draw(st.one_of(st.none(), NUM))
        shape = draw(st.integers(0, 3))
        if shape != 1:
            extras["filtered"] = {"unweighted_n": 5, "weighted_n": f}
        if shape != 2:
            extras["unfiltered"] = {"unweighted_n": 9, "weighted_n": u}
        if shape == 3 and draw(st.booleans()):
            extras["filtered"] = {"unweighted_n": 5}
    if kind in ("new", "both"):
        fs = {"filtered_complete": {
            "unweighted": {"selected": 4, "other": 2, "missing": 1},
            "weighted": {"selected": draw(NUM), "other": draw(NUM), "missing": draw(NUM)}}}
        if draw(st.integers(0, 3)) == 0:
            fs["is_cat_date"] = draw(st.booleans())
        if draw(st.integers(0, 5)) == 0:
            # null counts inside a present block: unspecified, like a null weighted_n
            for key in draw(st.sampled_from([["selected"], ["other"], ["selected", "other"]])):
                fs["filtered_complete"]["weighted"][key] = None
        extras["filter_stats"] = fs
    elif kind == "new-null":
        extras["filter_stats"] = {"filtered_complete": {"weighted": None}}
    elif kind == "new-empty":
        extras["filter_stats"] = draw(st.sampled_from([{}, {"filtered_complete": {}},
                                                       {"filtered_complete": {"weighted": {}}},
                                                       {"filtered_complete": None}, None]))
        # a null container is "unspecified" as much as a missing or empty one
        if draw(st.integers(0, 3)) == 0 and "filtered" in extras:
            extras[draw(st.sampled_from(["filtered", "unfiltered"]))] = None
    if kind in ("new-null", "new-empty") and extras["filter_stats"] is not None \
            and draw(st.booleans()):
        # the categorical-date flag only matters when complete-case statistics are present
        extras["filter_stats"] = dict(extras["filter_stats"], is_cat_date=True)
    return extras


def expected_fraction(extras):
    fs = extras.get("filter_stats") or {}
    wfc = (fs.get("filtered_complete") or {}).get("weighted")
    if wfc:
        if fs.get("is_cat_date"):
            return 1.0
        num = wfc.get("selected")
        den = None if num is None or wfc.get("other") is None else num + wfc["other"]
    else:
        num = (extras.get("filtered") or {}).get("weighted_n")
        den = (extras.get("unfiltered") or {}).get("weighted_n")
    if num is None or den is None:
        return 1.0
    if den == 0:
        return float("nan")
    return num / den


@st.composite
def case_st(draw, shapes):
    sc = draw(scen.scenario_st(shapes, measure="none",
                               weight_kinds=("none", "int", "dyadic", "tenths")))
    sc["query"]["extras"] = draw(filter_block_st())
    tx, inforce = draw(xforms.slice_insertions_st(sc, where="either", max_ins=3,
                                                  allow_malformed=False))
    sc["transforms"] = tx
    sc["insertions"] = inforce
    sc["population"] = draw(st.sampled_from([None, 0, 1, 1000, 12345.5]))
    sc["factor"] = draw(st.sampled_from([2, 0.5, 10]))
    return sc


def judge(case, rec):
    sv, q = case["survey"], case["query"]
    resp = zz9enc.encode(sv, q)
    pop = case["population"]
    part = lib.cube(resp, case["transforms"], population=pop).partitions[0]
    lib.warm(part, case.get("warmup"))
    dims = apparent_dims(sv, q)
    orc = Oracle(sv, q)
    rec.event("shape=" + "x".join(case["shape"]))
    frac = expected_fraction(q["extras"])
    got_frac = part.population_fraction
    rec.compared()
    if not close(got_frac, frac):
        rec.violation("population_fraction = %r; cascade over %r gives %r" % (
            got_frac, q["extras"], frac), "fraction")
        return
    # --- the same response OBJECT used for a second cube (and a cube set) after the
    # --- fraction was read from the first: the filter statistics must still be there
    shared = copy.deepcopy(resp)
    first = lib.Cube(shared, transforms=copy.deepcopy(case["transforms"]), population=pop)
    f1 = first.population_fraction
    second = lib.Cube(shared, transforms=copy.deepcopy(case["transforms"]), population=pop)
    f2 = second.population_fraction
    f3 = lib.CubeSet([shared], [copy.deepcopy(case["transforms"])], pop, 0).population_fraction
    rec.compared()
    if not (close(f1, frac) and close(f2, frac) and close(f3, frac)):
        rec.violation("population_fraction of a first / second cube / cube set built from the "
                      "same response object = %r / %r / %r; cascade gives %r" % (
                          f1, f2, f3, frac), "fraction-reuse")
        return
    dates = [d.var.get("flavour") == "cat_date" for d in dims]
    if (not math.isnan(frac) and frac != 1.0) or any(dates):
        rec.nontrivial()
    P = 0 if pop is None else pop
    strand = len(dims) == 1
    counts = np.asarray(part.population_counts, dtype=float)
    moe = np.asarray(part.population_counts_moe, dtype=float)
    if strand:
        rspecs = lib.display_specs(part.row_order(), part.row_labels, orc.rows,
                                   case["insertions"]["rows"])
        if dates[0]:
            prop = np.ones(len(rspecs))
            err = np.zeros(len(rspecs))
        else:
            prop = np.asarray(part.table_proportions, dtype=float)
            err = np.asarray(part.table_proportion_stderrs, dtype=float)
        diff = [orc.is_diff(s) for s in rspecs]
        # --- the proportion / standard error the estimates are built from (also public;
        # --- they decide the estimate even when the population argument is 0 or absent)
        pp = np.asarray(part.population_proportions, dtype=float)
        pe = np.asarray(part.population_proportion_stderrs, dtype=float)
        rec.compared(2)
        if pp.shape != prop.shape or not all(
                close(pp[i], None if diff[i] else prop[i]) for i in range(len(rspecs))):
            rec.violation("strand population_proportions = %r; the matching proportion is %r "
                          "(NaN for differences %r)" % (pp.tolist(), prop.tolist(), diff),
                          "pop-proportions1")
        if pe.shape != err.shape or not all(
                diff[i] or close(pe[i], err[i]) for i in range(len(rspecs))):
            rec.violation("strand population_proportion_stderrs = %r; the matching standard "
                          "error is %r" % (pe.tolist(), err.tolist()), "pop-stderr1")
        for i in range(len(rspecs)):
            want_c = None if diff[i] else P * frac * prop[i]
            rec.compared(2)
            if not close(counts[i], want_c):
                rec.violation("strand population_counts[%d] = %r; %r x %r x %r = %r" % (
                    i, counts[i], P, frac, prop[i], want_c), "counts1")
            want_m = Z975 * P * frac * err[i]
            if not diff[i] and not close(moe[i], want_m):
                rec.violation("strand population_counts_moe[%d] = %r, expected %r" % (
                    i, moe[i], want_m), "moe1")
    else:
        rspecs, cspecs = _specs(part, orc, case)
        if dates[0] and dates[1]:
            # the statement does not say which date wins, but estimate and MoE must use
            # MATCHING proportion and standard error: find the proportion the estimates
            # were built from and require the MoE to use its own std-err
            rec.event("both categorical-date")
            prop = err = None
            rp, cp = (np.asarray(part.row_proportions, dtype=float),
                      np.asarray(part.column_proportions, dtype=float))
            nd_mask = np.array([[not (orc.is_diff(r_) or orc.is_diff(c_)) for c_ in cspecs]
                                for r_ in rspecs], dtype=bool).reshape(counts.shape)
            if P and frac and not math.isnan(frac):
                from_rows = _all(counts[nd_mask], (P * frac * rp)[nd_mask])
                from_cols = _all(counts[nd_mask], (P * frac * cp)[nd_mask])
                rec.compared()
                if not (from_rows or from_cols):
                    rec.violation("population_counts follow neither the within-row-date nor "
                                  "the within-column-date proportion", "both-dates-counts")
                elif not (from_rows and from_cols):
                    se = np.asarray(part.row_std_err if from_rows else part.column_std_err,
                                    dtype=float)
                    want = Z975 * P * frac * se
                    if not _all(moe[nd_mask], want[nd_mask]):
                        rec.violation(
                            "population_counts use the within-%s-date proportion but "
                            "population_counts_moe does not use the matching standard error"
                            % ("row" if from_rows else "column"), "both-dates-moe-mismatch")
        elif dates[0]:
            prop, err = part.row_proportions, part.row_std_err
        elif dates[1]:
            prop, err = part.column_proportions, part.column_std_err
        else:
            prop, err = part.table_proportions, part.table_std_err
        if prop is not None:
            prop = np.asarray(prop, dtype=float)
            err = np.asarray(err, dtype=float)
            pp = np.asarray(part.population_proportions, dtype=float)
            pe = np.asarray(part.population_std_err, dtype=float)
            dmask = np.array([[orc.is_diff(r_) or orc.is_diff(c_) for c_ in cspecs]
                              for r_ in rspecs], dtype=bool).reshape(prop.shape)
            rec.compared(2)
            if pp.shape != prop.shape or not _all(pp, np.where(dmask, np.nan, prop)):
                rec.violation("population_proportions = %r; the matching proportion is %r "
                              "(NaN on differences)" % (pp.tolist(), prop.tolist()),
                              "pop-proportions")
            if pe.shape != err.shape or not _all(pe[~dmask], err[~dmask]):
                rec.violation("population_std_err = %r; the matching standard error is %r" % (
                    pe.tolist(), err.tolist()), "pop-stderr")
            for i, rs in enumerate(rspecs):
                for j, cs in enumerate(cspecs):
                    d = orc.is_diff(rs) or orc.is_diff(cs)
                    want_c = None if d else P * frac * prop[i, j]
                    rec.compared(2)
                    if not close(counts[i, j], want_c):
                        rec.violation(
                            "population_counts[%d,%d] = %r; population %r x fraction %r x "
                            "proportion %r = %r" % (i, j, counts[i, j], P, frac, prop[i, j],
                                                    want_c), "counts")
                    want_m = Z975 * P * frac * err[i, j]
                    if not d and not close(moe[i, j], want_m):
                        rec.violation("population_counts_moe[%d,%d] = %r, expected %r" % (
                            i, j, moe[i, j], want_m), "moe")
    # --- linearity in the population
    if pop:
        c = case["factor"]
        part2 = lib.cube(resp, case["transforms"], population=pop * c).partitions[0]
        c2 = np.asarray(part2.population_counts, dtype=float)
        m2 = np.asarray(part2.population_counts_moe, dtype=float)
        rec.compared(2)
        if not _all(c2, counts * c) or not _all(m2, moe * c):
            rec.violation("population x %r does not scale the estimates by %r" % (c, c),
                          "linearity")


def _all(a, b):
    a, b = np.asarray(a, dtype=float), np.asarray(b, dtype=float)
    return a.shape == b.shape and all(close(x, y) for x, y in zip(a.ravel(), b.ravel()))


SUBCHECKS = [
    SubCheck("slices", case_st(SHAPES), judge, quick=3200, thorough=40000),
    SubCheck("strands", case_st([("cat",), ("cat_date",), ("mr",), ("cat_date",)]), judge,
             quick=1600, thorough=20000),
]
