"""C16 - column index compares column share with the unconditional row share."""
import numpy as np
from hypothesis import strategies as st

from engine import lib, scen, xforms, zz9enc
from engine.cmp import close
from engine.oracle import Oracle, apparent_dims
from engine.runner import SubCheck
from props.c02 import _specs

PROPERTY = "C16"
RULE = (
    "Random weighted surveys over the categorical / multiple-response pairings (2-D and each "
    "slice of 3-D, table dimension with missing categories in front), where column "
    "missingness is made heavy and DEPENDENT on the row answer; each base cell's column "
    "index is compared with 100 x (respondent-level column proportion) / (weight of "
    "respondents belonging to the row element / weight of respondents eligible for it, "
    "whatever their column answer); NaN for inserted subtotals. Non-trivial: conditional and "
    "unconditional row share differ for at least one row."
)
BOUNDS = "respondents 0..30, valid categories 1..4 (+0..2 missing), items 1..3"
ASSUMPTIONS = [
    "categorical-array and numeric-array pairings are outside the statement's domain",
]

SHAPES = [("cat", "cat")] * 3 + [("cat", "mr"), ("mr", "cat"), ("mr", "mr"),
                                  ("cat_date", "cat"), ("cat", "text"),
                                  ("cat", "cat", "cat"), ("cat", "cat", "cat"),
                                  ("mr", "cat", "cat"), ("cat", "mr", "cat"),
                                  ("cat", "cat", "mr"), ("mr", "mr", "mr"),
                                  ("cat_date", "cat", "cat"), ("numeric", "cat", "cat"),
                                  ("text", "cat", "mr"), ("datetime", "mr", "cat"),
                                  ("logical", "cat", "cat")]


@st.composite
def case_st(draw):
    sc = draw(scen.scenario_st(SHAPES, measure="maybe", max_n=30, stats=["mean"], skew=False,
                               weight_kinds=("none", "int", "dyadic", "tenths")))
    sv, q = sc["survey"], sc["query"]
    rvar = sv["vars"][q["dims"][-2]["var"]]
    cvar = sv["vars"][q["dims"][-1]["var"]]
    n = sv["n"]
    # --- make the column answer go missing depending on the row answer
    flips = draw(st.lists(st.integers(0, 3), min_size=n, max_size=n))
    if rvar["type"] == "cat":
        target = rvar["answers"][0] if n else None
        hit = [rvar["answers"][r] == target for r in range(n)]
    else:
        hit = [rvar["answers"][r][0] == 1 for r in range(n)]
    if cvar["type"] == "cat":
        miss = [c["id"] for c in cvar["cats"] if c["missing"]]
        if miss:
            for r in range(n):
                if hit[r] and flips[r] > 0:
                    cvar["answers"][r] = miss[0]
    else:
        for r in range(n):
            if hit[r] and flips[r] > 0:
                cvar["answers"][r] = [-1] * len(cvar["items"])
    tx, inforce = draw(xforms.slice_insertions_st(sc, where="transforms", max_ins=3,
                                                  allow_malformed=False))
    sc["transforms"] = tx
    sc["insertions"] = inforce
    return sc


def unconditional_share(orc, rs):
    """weight belonging to the row element / weight eligible for it, any column answer."""
    R = orc.rows
    key = rs[1]
    ctx = orc.ctx(key, None)
    num = den = 0.0
    for r in orc.respondents():
        w = orc.w(r, True)
        if orc.valid_on(R, r, key, ctx):
            den += w
            if orc.member(R, r, key, ctx):
                num += w
    return num, den


def judge(case, rec):
    sv, q = case["survey"], case["query"]
    cube = lib.cube(zz9enc.encode(sv, q), case["transforms"])
    dims = apparent_dims(sv, q)
    rec.event("shape=" + "x".join(case["shape"]))
    tkeys = dims[0].keys if len(dims) == 3 else [None]
    for part, tkey in zip(cube.partitions, tkeys):
        lib.warm(part, case.get("warmup"))
        orc = Oracle(sv, q, table_key=tkey)
        rspecs, cspecs = _specs(part, orc, case)
        CI = np.asarray(part.column_index, dtype=float)
        if CI.shape != (len(rspecs), len(cspecs)):
            rec.violation("column_index shape %r" % (CI.shape,), "shape")
            continue
        for i, rs in enumerate(rspecs):
            num = den = None
            if rs[0] == "el":
                num, den = unconditional_share(orc, rs)
                # conditional share (given a valid column answer) for the non-triviality rule
                if orc.cols.kind != "mr" and den:
                    cn = sum(orc.count(rs, ("el", ck), True) for ck in orc.cols.keys)
                    cd = orc.table_base(rs, ("el", orc.cols.keys[0]), True) if orc.cols.n else 0
                    if cd and abs(cn / cd - num / den) > 1e-6:
                        rec.nontrivial()
                        rec.event("conditional != unconditional share")
                elif orc.cols.kind == "mr" and den:
                    for ck in orc.cols.keys:
                        cd = orc.table_base(rs, ("el", ck), True)
                        cn = orc.row_base(rs, ("el", ck), True)
                        if cd and abs(cn / cd - num / den) > 1e-6:
                            rec.nontrivial()
                            rec.event("conditional != unconditional share")
                            break
            for j, cs in enumerate(cspecs):
                g = CI[i, j]
                rec.compared()
                if rs[0] == "sub" or cs[0] == "sub":
                    if not np.isnan(g):
                        rec.violation("column_index[%d,%d] = %r for an inserted subtotal" % (
                            i, j, g), "subtotal-not-nan")
                    continue
                cb = orc.col_base(rs, cs, True)
                cnt = orc.count(rs, cs, True)
                if cb == 0 or den == 0 or num == 0:
                    if np.isfinite(g):
                        rec.violation("column_index[%d,%d] = %r although a share is undefined "
                                      "(column base %r, row share %r/%r)" % (i, j, g, cb, num,
                                                                             den), "undefined")
                    continue
                want = 100.0 * (cnt / cb) / (num / den)
                if not close(g, want, rtol=1e-9, atol=1e-7):
                    rec.violation(
                        "column_index[%d,%d] = %r; 100 x column proportion %r/%r over "
                        "unconditional row share %r/%r = %r" % (i, j, g, cnt, cb, num, den,
                                                                want), "index")


SUBCHECKS = [
    SubCheck("column-index", case_st(), judge, quick=4000, thorough=50000),
]
