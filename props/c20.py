"""C20 - smoothing is a trailing moving average over categorical-date periods."""
import itertools
import math

import numpy as np
from hypothesis import strategies as st

from engine import lib, scen, xforms, zz9enc
from engine.cmp import close
from engine.oracle import Oracle
from engine.runner import SubCheck

PROPERTY = "C20"
RULE = (
    "(enumerated) every series length L=1..8 x window in {None,-1,0,1..L+2} x 1..3 rows x "
    "function absent / one_sided_moving_avg x categorical-date or not x value patterns incl. "
    "NaN and 0, through smoothed_means of slices and strands; (random) surveys with a "
    "categorical-date columns dimension, row subtotals, hide / explicit order on the date "
    "dimension: smoothed column proportions / percentages / index / means / scale mean are "
    "compared with the four-line specification applied to the unsmoothed outputs in payload "
    "order. Non-trivial: 2 <= w <= L on a categorical-date dimension (guard classes counted "
    "separately)."
)
BOUNDS = "L 1..8, w -1..L+2, rows 1..3 (enumerated); random: <=5 periods, <=4 rows"
ASSUMPTIONS = [
    "subtotal *columns* on the date dimension are not periods; only base columns are judged",
    "window: None means the documented default 2",
]
EXHAUSTIVE = True


def spec_smooth(x, w, is_date):
    """out[t] = nan if t < w-1 else mean(x[t-w+1..t]); unchanged when not applicable."""
    x = [float(v) for v in x]
    L = len(x)
    if w is None:
        w = 2
    if not is_date or L == 0 or w < 2 or w > L:
        return x
    out = []
    for t in range(L):
        if t < w - 1:
            out.append(float("nan"))
        else:
            out.append(sum(x[t - w + 1:t + 1]) / w)
    return out


def _vec_close(a, b, tol=1e-9):
    a = np.asarray(a, dtype=float).ravel()
    b = np.asarray(b, dtype=float).ravel()
    return a.shape == b.shape and all(close(x, y, rtol=tol, atol=tol) for x, y in zip(a, b))


# ------------------------------------------------------------------ enumerated tier
PATTERNS = [
    lambda L: [1.0 + 0.5 * t for t in range(L)],
    lambda L: [float((t * 7) % 5) for t in range(L)],
    lambda L: [0.0] * L,
    lambda L: [None if t == 0 else 2.0 * t for t in range(L)],
    lambda L: [None if t == L // 2 else 1.5 + t for t in range(L)],
    lambda L: [3.25 if t % 2 else -1.75 for t in range(L)],
]


def _enum_cases(shard, nshards, tier):
    k = 0
    max_L = 8 if tier == "thorough" else 5
    for L in range(1, max_L + 1):
        for w in [None, -1, 0, 1] + list(range(2, L + 3)):
            for nrows in (0, 1, 2, 3):  # 0 = strand
                for func in (None, "one_sided_moving_avg"):
                    for is_date in (True, False):
                        for pi, pat in enumerate(PATTERNS):
                            if tier != "thorough" and pi % 2:
                                continue
                            k += 1
                            if k % nshards != shard:
                                continue
                            yield {"L": L, "w": w, "nrows": nrows, "func": func,
                                   "is_date": is_date, "pattern": pi, "shape": ["enum"]}


def _mk_response(case):
    L, nrows = case["L"], case["nrows"]
    date_cats = [{"id": t + 1, "name": "p%d" % t, "missing": False, "value": None}
                 for t in range(L)]
    if case["is_date"]:
        for t, c in enumerate(date_cats):
            c["date"] = "2020-%02d" % (t + 1)
    dvar = {"type": "cat", "flavour": "cat_date" if case["is_date"] else "cat", "alias": "d",
            "name": "D", "cats": date_cats, "answers": [t + 1 for t in range(L)],
            "use_order_key": False, "view_insertions": None}
    svars = {"d": dvar, "x": {"type": "num", "alias": "x", "name": "X",
                              "values": [1.0] * L}}
    dims = [{"var": "d"}]
    if nrows:
        rcats = [{"id": i + 1, "name": "r%d" % i, "missing": False, "value": None}
                 for i in range(nrows)]
        svars["r"] = {"type": "cat", "flavour": "cat", "alias": "r", "name": "R", "cats": rcats,
                      "answers": [1] * L, "use_order_key": False, "view_insertions": None}
        dims = [{"var": "r"}, {"var": "d"}]
    sv = {"n": L, "weights": None, "vars": svars}
    q = {"dims": dims, "weighted": False,
         "measure": {"var": "x", "stats": ["mean"], "valid_counts": False}}
    resp = zz9enc.encode(sv, q)
    # --- overwrite the means with the chosen value pattern (row i shifted by i)
    base = PATTERNS[case["pattern"]](L)
    rows = max(nrows, 1)
    data = []
    table = []
    for i in range(rows):
        row = [None if v is None else v + i * 0.125 for v in base]
        table.append(row)
        data.extend({"?": -8} if v is None else v for v in row)
    resp["result"]["measures"]["mean"]["data"] = data
    return resp, table


def judge_enum(case, rec):
    resp, table = _mk_response(case)
    sm = {}
    if case["func"]:
        sm["function"] = case["func"]
    if case["w"] is not None:
        sm["window"] = case["w"]
    key = "columns_dimension" if case["nrows"] else "rows_dimension"
    tx = {key: {"smoother": sm}} if (sm or case["pattern"] % 2 == 0) else {}
    part = lib.cube(resp, tx).partitions[0]
    got = np.asarray(part.smoothed_means, dtype=float)
    L, w = case["L"], case["w"]
    applicable = case["is_date"] and (2 <= (2 if w is None else w) <= L)
    rec.event("smoothing applies" if applicable else (
        "guard:not-date" if not case["is_date"] else "guard:window"))
    rec.nontrivial(applicable)
    if not case["nrows"]:
        got = got.reshape(1, -1)
    for i, row in enumerate(table):
        x = [float("nan") if v is None else v for v in row]
        want = spec_smooth(x, w, case["is_date"])
        rec.compared()
        if not _vec_close(got[i], want):
            rec.violation("smoothed_means row %d for L=%d window=%r date=%s: %r, specification "
                          "gives %r (unsmoothed %r)" % (i, L, w, case["is_date"],
                                                        got[i].tolist(), want, x),
                          "window-zero" if w == 0 else "enum-means")


# ------------------------------------------------------------------ random tier
@st.composite
def case_st(draw):
    shape = draw(st.sampled_from([("cat", "cat_date"), ("cat", "cat_date"), ("mr", "cat_date"),
                                  ("cat", "cat"), ("cat_date", "cat_date")]))
    numeric = draw(st.sampled_from(["some", "all", "none"]))
    sc = draw(scen.scenario_st([shape], measure="maybe", stats=["mean"], max_valid=5,
                               numeric=numeric, skew=False, allow_order_key=False))
    sv, q = sc["survey"], sc["query"]
    tx = {}
    rvar = sv["vars"][q["dims"][0]["var"]]
    if xforms.can_insert(rvar) and draw(st.booleans()):
        v, m = xforms.dim_ids(rvar)
        tx["rows_dimension"] = {"insertions": draw(xforms.insertions_st(
            v, m, max_ins=2, allow_malformed=False, allow_diff=False))}
    sm = {}
    if draw(st.booleans()):
        sm["function"] = "one_sided_moving_avg"
    w = draw(st.sampled_from([None, -1, 0, 1, 2, 2, 3, 3, 4, 5, 6]))
    if w is not None:
        sm["window"] = w
    cdt = {"smoother": sm} if sm or draw(st.booleans()) else {}
    cvar = sv["vars"][q["dims"][1]["var"]]
    # subtotal columns on the date dimension (half-years over waves ...): not periods of the
    # series, but they have a scale mean too
    if xforms.can_insert(cvar) and draw(st.integers(0, 2)) == 0:
        v, m = xforms.dim_ids(cvar)
        cdt["insertions"] = draw(xforms.insertions_st(v, m, max_ins=3, allow_malformed=False,
                                                      allow_diff=True))
    refs = xforms.element_refs(cvar)
    display = {}
    if draw(st.booleans()):
        display["order"] = {"type": "explicit", "element_ids": draw(xforms.explicit_ids_st(refs))}
    elements, _ = draw(xforms.hide_prune_st(refs, p_hide=2))
    if elements:
        display["elements"] = elements
    sc["base_tx"] = dict(tx, columns_dimension=dict(cdt)) if cdt else dict(tx)
    full_c = dict(cdt)
    full_c.update(display)
    sc["full_tx"] = dict(tx, columns_dimension=full_c) if full_c else dict(tx)
    sc["window"] = w
    return sc


def judge_random(case, rec):
    sv, q = case["survey"], case["query"]
    resp = zz9enc.encode(sv, q)
    ref = lib.cube(resp, case["base_tx"]).partitions[0]
    full = lib.cube(resp, case["full_tx"]).partitions[0]
    lib.warm(full, case.get("warmup"))
    orc = Oracle(sv, q)
    rec.event("shape=" + "x".join(case["shape"]))
    is_date = orc.cols.var.get("flavour") == "cat_date"
    w = case["window"]
    L = orc.cols.n
    applicable = is_date and (2 <= (2 if w is None else w) <= L)
    rec.nontrivial(applicable)
    rec.event("smoothing applies" if applicable else "guard")
    sig = "window-zero" if w == 0 else None
    cB = [int(x) for x in ref.column_order()]
    base_pos = [cB.index(j) for j in range(L)]  # payload order of the periods
    pairs = [("smoothed_column_proportions", "column_proportions", 1.0),
             ("smoothed_column_percentages", "column_proportions", 100.0),
             ("smoothed_column_index", "column_index", 1.0)]
    if q.get("measure"):
        pairs.append(("smoothed_means", "means", 1.0))
    for sname, uname, k in pairs:
        U = np.asarray(getattr(ref, uname), dtype=float)[:, base_pos] * k
        S = np.asarray(getattr(ref, sname), dtype=float)[:, base_pos]
        for i in range(U.shape[0]):
            if sname == "smoothed_column_index" and int(ref.row_order()[i]) < 0:
                continue  # index of a subtotal row is NaN either way
            if sname == "smoothed_means" and int(ref.row_order()[i]) < 0:
                continue
            want = spec_smooth(U[i], w, is_date)
            rec.compared()
            if not _vec_close(S[i], want):
                rec.violation("%s row %d window=%r: %r; trailing mean of %r is %r" % (
                    sname, i, w, S[i].tolist(), U[i].tolist(), want), sig or sname)
        # --- display transforms on the date dimension: smoothing in payload order, then
        # --- re-indexing by the display order
        Sf = np.asarray(getattr(full, sname), dtype=float)
        Sr = np.asarray(getattr(ref, sname), dtype=float)
        cT = [int(x) for x in full.column_order()]
        rT = [int(x) for x in full.row_order()]
        rB = [int(x) for x in ref.row_order()]
        want = Sr[np.ix_([rB.index(s) for s in rT], [cB.index(s) for s in cT])]
        rec.compared()
        if Sf.size or want.size:
            if not _vec_close(Sf, want) or Sf.shape != want.shape:
                rec.violation("%s under hide/order of the date dimension is not the payload-"
                              "order smoothing re-indexed" % sname, "display-" + sname)
        # --- the UNSMOOTHED output read after its smoothed form on the same partition is
        # --- still the unsmoothed one (on `ref` it was read before)
        Uf = np.asarray(getattr(full, uname), dtype=float)
        Ur = np.asarray(getattr(ref, uname), dtype=float)
        wantU = Ur[np.ix_([rB.index(s_) for s_ in rT], [cB.index(s_) for s_ in cT])]
        rec.compared()
        if (Uf.size or wantU.size) and (Uf.shape != wantU.shape or not _vec_close(Uf, wantU)):
            rec.violation("%s read after %s on the same partition differs from its value on a "
                          "partition where it was read first" % (uname, sname),
                          "unsmoothed-after-" + sname)
    # --- smoothed scale mean = scale mean of the smoothed proportions
    values = orc.rows.numeric_values()
    ssm = ref.smoothed_columns_scale_mean
    rec.compared()
    if not any(v is not None for v in values):
        if ssm is not None:
            rec.violation("smoothed_columns_scale_mean %r without numeric values" % (ssm,),
                          "scale-none")
        return
    rB = [int(x) for x in ref.row_order()]
    rows_pos = [rB.index(i) for i in range(orc.rows.n)]
    SP = np.asarray(ref.smoothed_column_proportions, dtype=float)[np.ix_(rows_pos, base_pos)]
    got = np.asarray(ssm, dtype=float)[base_pos]
    for t in range(L):
        num = den = 0.0
        nan_seen = False
        for i, v in enumerate(values):
            if v is None:
                continue
            p = SP[i, t]
            if math.isnan(p):
                nan_seen = True
                continue
            num += v * p
            den += p
        if nan_seen:
            want = None
        else:
            want = None if den == 0 else num / den
        rec.compared()
        if not close(got[t], want):
            rec.violation("smoothed_columns_scale_mean[%d] = %r; scale mean of the smoothed "
                          "proportions %r is %r" % (t, got[t], SP[:, t].tolist(), want),
                          sig or "scale-mean")
    # --- inserted subtotal columns are not periods: their scale mean is the unsmoothed one
    # --- (for a difference column that is NaN: its column base is undefined)
    usm = np.asarray(ref.columns_scale_mean, dtype=float)
    for pos, signed in enumerate(cB):
        if signed >= 0:
            continue
        rec.event("subtotal column on the smoothed dimension")
        g = np.asarray(ssm, dtype=float)[pos]
        rec.compared()
        if not close(g, usm[pos]):
            rec.violation("smoothed_columns_scale_mean of subtotal column %d = %r; a subtotal "
                          "column is not smoothed and columns_scale_mean reports %r" % (
                              pos, g, usm[pos]), sig or "scale-mean-subtotal-column")

SUBCHECKS = [
    SubCheck("enumerated", None, judge_enum, kind="enumerate", enumerate_fn=_enum_cases),
    SubCheck("random", case_st(), judge_random, quick=2400, thorough=30000),
]
