"""C06 - partitioning of 3-D and multi-cube responses restricts to the right respondents."""
import copy

import numpy as np
from hypothesis import strategies as st

from engine import lib, observe, scen, xforms, zz9enc
from engine.cmp import close, is_root, roots_close
from engine.observe import Raised
from engine.oracle import apparent_dims
from engine.runner import SubCheck
from props.c05 import _arr_eq, _eq, _obj

PROPERTY = "C06"
RULE = (
    "(3-D) random surveys with a table dimension (CAT with missing categories anywhere, MR "
    "with per-item missingness, CA items) x every rows x columns pairing, with random "
    "insertions / hide / prune / explicit order; for each valid table element k the survey is "
    "restricted to the respondents belonging to k, re-encoded as a 2-D cube, and EVERY public "
    "output of partition k must equal that of the 2-D analysis. (sets) tabbook-style, "
    "CA-as-0th and numeric-summary CubeSets are compared with the univariate / bivariate "
    "cubes they are made of; single-column-filter cubes on a text or binned-numeric rows variable "
    "(zz9 leaves out the values no filtered respondent gave), weighted or not, in every "
    "response form, are compared with respondent counts and must leave the caller's "
    "responses usable. Non-trivial: a missing table category before a valid one, or an "
    "MR table with item missingness, or >= 2 partitions that differ."
)
BOUNDS = "respondents 0..24, table elements 1..4 (+<=2 missing), rows/cols 1..4 valid, items 1..3"
ASSUMPTIONS = [
    "the 2-D path is tied to the respondent-level oracle by C01-C03/C11-C16; this check ties "
    "the 3-D / multi-cube path to the 2-D path",
    "names (dimension / table names) are compared separately from values",
]

SHAPES_3D = scen.SHAPES_3D + [("cat", "cat", "cat_date"), ("cat", "cat_date", "cat"),
                              ("cat", "cat", "cat"), ("mr", "cat", "cat")]

NAME_LIKE = {
    "name", "description", "rows_dimension_name", "rows_dimension_alias",
    "rows_dimension_description", "columns_dimension_name", "columns_dimension_description",
    "variable_name", "table_name", "tab_label", "tab_alias", "ndim", "dimension_types",
    "cube_index", "rows_dimension_type", "columns_dimension_type", "selected_category_labels",
    "payload_order", "pairwise_significance_tests",
}


@st.composite
def case3d_st(draw):
    sc = draw(scen.scenario_st(SHAPES_3D, measure="maybe", stats=["mean", "sum"],
                               allow_order_key=True))
    sv, q = sc["survey"], sc["query"]
    tx = {}
    for name, d in zip(["rows_dimension", "columns_dimension"], q["dims"][-2:]):
        var, part = sv["vars"][d["var"]], d.get("part")
        t = {}
        if xforms.can_insert(var, part) and draw(st.booleans()):
            v, m = xforms.dim_ids(var, part)
            t["insertions"] = draw(xforms.insertions_st(v, m, max_ins=3, allow_malformed=False,
                                                        with_id=True))
        refs = xforms.element_refs(var, part)
        if draw(st.integers(0, 3)) == 0:
            t["order"] = {"type": "explicit", "element_ids": draw(xforms.explicit_ids_st(refs))}
        elements, prune = draw(xforms.hide_prune_st(refs))
        if elements:
            t["elements"] = elements
        if prune:
            t["prune"] = True
        if t:
            tx[name] = t
    sc["transforms"] = tx
    sc["population"] = draw(st.sampled_from([None, 800]))
    sc["mask_size"] = draw(st.sampled_from([0, 2]))
    return sc


def restricted(sv, q, k):
    """(survey, query) of the 2-D analysis restricted to table element number k."""
    tdim = q["dims"][0]
    tvar = sv["vars"][tdim["var"]]
    sv2 = copy.deepcopy(sv)
    q2 = copy.deepcopy(q)
    q2["dims"] = q2["dims"][1:]
    if tvar["type"] == "ca":
        # table = CA items: slice k crosses item k's categories with the columns variable
        item = k
        ca = sv2["vars"][tdim["var"]]
        newvar = {
            "type": "cat", "flavour": "cat", "alias": ca["alias"], "name": ca["name"],
            "cats": ca["cats"], "answers": [a[item] for a in ca["answers"]],
            "use_order_key": False, "view_insertions": ca.get("view_insertions"),
        }
        sv2["vars"][tdim["var"]] = newvar
        q2["dims"][0] = {"var": tdim["var"]}
        return sv2, q2, ca["items"][item]["name"]
    if tvar["type"] == "cat":
        cats = tvar["cats"]
        if tvar.get("use_order_key"):
            by = {c["id"]: c for c in cats}
            cats = [by[i] for i in tvar["order"]]
        valid = [c for c in cats if not c["missing"]]
        cid = valid[k]["id"]
        keep = [r for r in range(sv["n"]) if tvar["answers"][r] == cid]
        label = valid[k]["name"]
    else:
        keep = [r for r in range(sv["n"]) if tvar["answers"][r][k] == 1]
        label = tvar["items"][k]["name"]
    sv2["n"] = len(keep)
    if sv2["weights"] is not None:
        sv2["weights"] = [sv["weights"][r] for r in keep]
    for alias, var in sv2["vars"].items():
        for key in ("answers", "values"):
            if key in var:
                var[key] = [sv["vars"][alias][key][r] for r in keep]
    return sv2, q2, label


def compare_parts(p3, p2, rec, tag, skip=(), sigmap=None, population=None):
    s3 = observe.snapshot(p3)
    s2 = observe.snapshot(p2)
    kinds = observe.SLICE_KINDS if "column_labels" in s3 else observe.STRAND_KINDS
    for name in sorted(s3):
        if name in NAME_LIKE or name in skip:
            continue
        kind = kinds.get(name)
        if kind is None:
            continue
        a, b = s3[name], s2[name]
        rec.compared()
        if isinstance(a, Raised) or isinstance(b, Raised):
            if not _eq(a, b):
                rec.violation("%s %s: partition %r, reference analysis %r" % (tag, name, a, b),
                              (sigmap or {}).get(name, "raise-" + name))
            continue
        ok = _same(kind, a, b) or (is_root(name) and roots_close(
            a, b, 2.0 * (population or 1) if name.startswith("population") else 1.0))
        if not ok:
            rec.violation("%s %s differs from the analysis of the restricted survey: %s vs %s"
                          % (tag, name, _fmt(a), _fmt(b)),
                          (sigmap or {}).get(name, "differs-" + name))


def _same(kind, a, b):
    if a is None or b is None:
        return a is None and b is None
    if kind == "MASK":
        return all(_arr_eq(getattr(a, m), getattr(b, m))
                   for m in ("row_mask", "column_mask", "table_mask"))
    if kind == "PI":
        x, y = np.asarray(a, dtype=object), np.asarray(b, dtype=object)
        if x.size == 0 and y.size == 0:
            return True
        x, y = _obj(a), _obj(b)
        return x.shape == y.shape and all(tuple(x[i]) == tuple(y[i]) for i in np.ndindex(x.shape))
    if kind in ("PC", "RI", "CI"):
        return [tuple(t) if isinstance(t, (tuple, list, np.ndarray)) else t for t in a] == \
            [tuple(t) if isinstance(t, (tuple, list, np.ndarray)) else t for t in b]
    if kind == "S" and not isinstance(a, (tuple, list, np.ndarray)):
        return _eq(a, b)
    try:
        return _arr_eq(a, b)
    except (TypeError, ValueError):
        return _arr_eq(np.asarray(a, dtype=object), np.asarray(b, dtype=object))


def _fmt(v):
    try:
        s = repr(np.asarray(v).tolist())
    except Exception:  # noqa
        s = repr(v)
    return s if len(s) < 240 else s[:240] + "..."


def judge_3d(case, rec):
    sv, q = case["survey"], case["query"]
    cube3 = lib.cube(zz9enc.encode(sv, q), case["transforms"], case["population"],
                     case["mask_size"])
    dims = apparent_dims(sv, q)
    tdim = dims[0]
    rec.event("shape=" + "x".join(case["shape"]))
    parts = cube3.partitions
    rec.compared()
    if len(parts) != tdim.n:
        rec.violation("%d partitions for %d valid table elements" % (len(parts), tdim.n),
                      "npartitions")
        return
    tvar = tdim.var
    if tdim.kind == "cat":
        cats = tdim.all_cats
        seen_missing = False
        for c in cats:
            if c["missing"]:
                seen_missing = True
            elif seen_missing:
                rec.nontrivial()
                rec.event("missing table category before a valid one")
    elif tdim.kind == "mr":
        if any(-1 in a for a in tvar["answers"]):
            rec.nontrivial()
    sigs = []
    for k, p3 in enumerate(parts):
        lib.warm(p3, case.get("warmup"))
        sv2, q2, label = restricted(sv, q, k)
        p2 = lib.cube(zz9enc.encode(sv2, q2), case["transforms"], case["population"],
                      case["mask_size"]).partitions[0]
        compare_parts(p3, p2, rec, "slice %d:" % k, population=case["population"])
        if tdim.kind == "cat":
            label = tdim.labels()[k]  # enum-backed kinds are labelled by their value
        want_name = "%s: %s" % (tvar["name"], label)
        rec.compared()
        if p3.table_name != want_name:
            rec.violation("table_name %r, expected %r" % (p3.table_name, want_name),
                          "table-name")
        if tdim.kind == "ca_items":
            if p3.tab_label != label:
                rec.violation("tab_label %r, expected %r" % (p3.tab_label, label), "tab-label")
        try:
            sigs.append(np.asarray(p3.counts).tobytes())
        except Exception:  # noqa
            pass
        if k == len(parts) - 1:
            # the partitions are asked for a second time after all of them were read: the
            # last one must still be the analysis of the same respondents
            again = cube3.partitions
            rec.compared()
            if len(again) != len(parts):
                rec.violation("second request for the partitions yields %d, first %d" % (
                    len(again), len(parts)), "npartitions-again")
            else:
                compare_parts(again[k], p2, rec, "slice %d (partitions requested again):" % k,
                              population=case["population"])
    if len(set(sigs)) >= 2:
        rec.nontrivial()


# ------------------------------------------------------------------ multi-cube sets
@st.composite
def case_set_st(draw):
    kind = draw(st.sampled_from(["tabbook", "tabbook", "ca0", "ca0", "numeric", "single",
                                 "single", "filtercol", "filtercol"]))
    n = draw(scen.S.n_st(20))
    if kind == "filtercol":
        # a text variable on the rows of a multitable whose columns are single-column
        # filters: zz9 omits the text values no filtered respondent gave
        nv = draw(st.integers(1, 5))
        flavour = draw(st.sampled_from(["text", "text", "numeric"]))
        miss = {"id": -1, "name": "", "missing": True, "value": None, "evalue": {"?": -1}}
        if flavour == "text":
            # text: ids are positions, the missing element comes last; an answer may be the
            # empty string
            blank = draw(st.integers(0, 3)) == 0
            cats = [{"id": i, "name": None, "missing": False, "value": None,
                     "evalue": "" if (blank and i == 0) else "t%d" % i}
                    for i in range(nv)] + [miss]
        else:
            # binned numeric (zz9): bins numbered 1..n, the missing element comes FIRST
            # (or is absent altogether, e.g. when the rows are grouped by another variable)
            cats = ([miss] if draw(st.booleans()) else []) + [
                {"id": i + 1, "name": None, "missing": False, "value": None,
                 "evalue": [i * 10, i * 10 + 10]} for i in range(nv)]
        answers = draw(st.lists(st.sampled_from([c["id"] for c in cats]), min_size=n,
                                max_size=n))
        var = {"type": "cat", "flavour": flavour, "alias": "r", "name": "R", "cats": cats,
               "answers": answers, "use_order_key": False, "view_insertions": None}
        filters = draw(st.lists(st.lists(st.booleans(), min_size=n, max_size=n), min_size=1,
                                max_size=3))
        weights = draw(scen.S.weights_st(n, ("none", "int", "dyadic")))
        return {"kind": kind, "survey": {"n": n, "weights": weights, "vars": {"r": var}},
                "filters": filters, "shape": [kind],
                "weighted": weights is not None and draw(st.booleans()),
                "form": draw(st.sampled_from(["dict", "dict", "json", "envelope",
                                              "json-envelope"])),
                "min_base": draw(st.sampled_from([0, 3])),
                "population": draw(st.sampled_from([None, 1000]))}
    weights = draw(scen.S.weights_st(n, ("none", "int", "dyadic")))
    svars = {}
    ncols = draw(st.integers(1, 3))
    col_aliases = []
    for j in range(ncols):
        alias = "c%d" % j
        if draw(st.integers(0, 2)) == 0:
            svars[alias] = draw(scen.S.mr_var_st(alias, n, max_items=3))
        else:
            svars[alias] = draw(scen.S.cat_var_st(alias, n, max_valid=4,
                                                  allow_order_key=False))
        col_aliases.append(alias)
    if kind == "single":
        # a cube set holding ONE response must behave exactly like the cube itself
        which = draw(st.sampled_from(["ca", "ca3", "cat", "mr"]))
        if which in ("ca", "ca3"):
            svars["r"] = draw(scen.S.ca_var_st("r", n, max_items=3, max_valid=4))
        elif which == "cat":
            svars["r"] = draw(scen.S.cat_var_st("r", n, max_valid=4, allow_order_key=False))
        else:
            svars["r"] = draw(scen.S.mr_var_st("r", n, max_items=3))
        survey = {"n": n, "weights": weights, "vars": svars}
        weighted = weights is not None and draw(st.booleans())
        return {"kind": kind, "single": which, "survey": survey, "cols": col_aliases,
                "weighted": weighted, "shape": [kind], "min_base": draw(st.sampled_from([0, 3])),
                "population": draw(st.sampled_from([None, 1000]))}
    if kind == "tabbook":
        if draw(st.booleans()):
            svars["r"] = draw(scen.S.cat_var_st("r", n, max_valid=4, allow_order_key=False))
        else:
            svars["r"] = draw(scen.S.mr_var_st("r", n, max_items=3))
    elif kind == "ca0":
        svars["r"] = draw(scen.S.ca_var_st("r", n, max_items=3, max_valid=4))
        if draw(st.integers(0, 3)) == 0:
            # the tab book reports a numeric summary (mean / sum of x) in every cell
            svars["x"] = draw(scen.S.num_var_st("x", n))
    else:
        svars["x"] = draw(scen.S.num_var_st("x", n))
    survey = {"n": n, "weights": weights, "vars": svars}
    weighted = weights is not None and draw(st.booleans())
    return {"kind": kind, "survey": survey, "cols": col_aliases, "weighted": weighted,
            "shape": [kind], "min_base": draw(st.sampled_from([0, 3])),
            "population": draw(st.sampled_from([None, 1000]))}


def _filter_response(sv, keep, weighted=False):
    """zz9's answer for the text variable among the respondents in `keep`: values nobody
    gave are left out and the remaining elements are numbered afresh."""
    var = sv["vars"]["r"]
    sub = copy.deepcopy(sv)
    sub["n"] = sum(keep)
    sub["vars"]["r"]["answers"] = [a for a, k in zip(var["answers"], keep) if k]
    if sub["weights"] is not None:
        sub["weights"] = [w for w, k in zip(sv["weights"], keep) if k]
    resp = zz9enc.encode(sub, {"dims": [{"var": "r"}], "weighted": weighted})
    res = resp["result"]
    els = res["dimensions"][0]["type"]["elements"]
    counts = list(res["counts"])
    wcounts = list(res["measures"]["count"]["data"])
    kept = [i for i, e in enumerate(els) if e.get("missing") or counts[i] > 0]
    new_els = []
    for i in kept:
        e = dict(els[i])
        if not e.get("missing") and var.get("flavour") == "text":
            e["id"] = len(new_els)   # text ids are positions within each response
        new_els.append(e)
    res["dimensions"][0]["type"]["elements"] = new_els
    res["counts"] = [counts[i] for i in kept]
    res["measures"]["count"]["data"] = [wcounts[i] for i in kept]
    res["is_single_col_cube"] = True
    return resp, len(kept) != len(els)


def judge_filtercol(case, rec):
    import json as _json
    sv = case["survey"]
    var = sv["vars"]["r"]
    weighted = case.get("weighted", False)
    W = sv["weights"] if weighted else None
    summary = zz9enc.encode(sv, {"dims": [{"var": "r"}], "weighted": weighted})
    resps, dropped = [summary], False
    for keep in case["filters"]:
        r, d = _filter_response(sv, keep, weighted)
        resps.append(r)
        dropped = dropped or d
    rec.nontrivial(dropped)
    if dropped:
        rec.event("filter cube lacks a text value")
    form = case.get("form", "dict")
    rec.event("form=" + form)
    if weighted:
        rec.event("weighted filter cubes")
    given = copy.deepcopy(resps)
    args = {"dict": given, "json": [_json.dumps(r) for r in given],
            "envelope": [{"value": r} for r in given],
            "json-envelope": [_json.dumps({"value": r}) for r in given]}[form]
    cs = lib.CubeSet(args, [{} for _ in resps], case["population"], case["min_base"])
    psets = cs.partition_sets
    rec.compared()
    if len(psets) != 1 or len(psets[0]) != len(resps):
        rec.violation("filter-column partition_sets shape %r" % ([len(s) for s in psets],),
                      "set-shape")
        return
    valid = [c for c in var["cats"] if not c["missing"]]
    labels = [c["evalue"] if isinstance(c["evalue"], str)
              else "-".join(str(x) for x in c["evalue"]) for c in valid]
    rec.event("rows=" + var["flavour"])
    for j, keep in enumerate([[True] * sv["n"]] + case["filters"]):
        part = psets[0][j]
        want_u = [sum(1 for a, k in zip(var["answers"], keep) if k and a == c["id"])
                  for c in valid]
        want_w = want_u if W is None else [
            sum(w for a, k, w in zip(var["answers"], keep, W) if k and a == c["id"])
            for c in valid]
        rec.compared(3)
        if list(part.row_labels) != labels:
            rec.violation("filter-column cube %d row labels %r, the summary cube's are %r" % (
                j, list(part.row_labels), labels), "filtercol-labels")
            continue
        for name, want in (("counts", want_w), ("unweighted_counts", want_u)):
            got = np.asarray(getattr(part, name), dtype=float)
            if got.shape != (len(want),) or not _arr_eq(got, np.asarray(want, dtype=float)):
                rec.violation("filter-column cube %d %s %r, filtered respondents give %r" % (
                    j, name, got.tolist(), want), "filtercol-" + name)
        tot = float(sum(want_w))
        got = np.asarray(part.table_proportions, dtype=float)
        exp = np.asarray([x / tot if tot else np.nan for x in want_w], dtype=float)
        if got.shape != exp.shape or not _arr_eq(got, exp):
            rec.violation("filter-column cube %d table_proportions %r, respondents give %r" % (
                j, got.tolist(), exp.tolist()), "filtercol-proportions")
    # --- the caller's response objects analysed on their own afterwards: as before
    if form in ("dict", "envelope"):
        for j in range(1, len(resps)):
            before = lib.cube(copy.deepcopy(resps[j])).partitions[0]
            after = lib.cube(given[j]).partitions[0]
            rec.compared()
            if list(before.row_labels) != list(after.row_labels) or not _arr_eq(
                    np.asarray(before.counts, dtype=float), np.asarray(after.counts, dtype=float)):
                rec.violation("filter response %d analysed on its own after the cube set: rows "
                              "%r counts %r; before: rows %r counts %r" % (
                                  j, list(after.row_labels), np.asarray(after.counts).tolist(),
                                  list(before.row_labels), np.asarray(before.counts).tolist()),
                              "filtercol-response-rewritten")


def judge_set(case, rec):
    sv = case["survey"]
    kind = case["kind"]
    rec.event("kind=" + kind)
    if kind == "filtercol":
        return judge_filtercol(case, rec)
    w = case["weighted"]
    if kind == "single":
        ca = [{"var": "r", "part": "items"}, {"var": "r", "part": "cats"}]
        dims = {"ca": ca, "ca3": ca + [{"var": case["cols"][0]}],
                "cat": [{"var": "r"}, {"var": case["cols"][0]}],
                "mr": [{"var": "r"}]}[case["single"]]
        resp = zz9enc.encode(sv, {"dims": dims, "weighted": w})
        cs = lib.CubeSet([copy.deepcopy(resp)], [{}], case["population"], case["min_base"])
        ref_parts = lib.cube(resp, {}, case["population"], case["min_base"]).partitions
        psets = cs.partition_sets
        rec.nontrivial()
        rec.compared()
        if len(psets) != len(ref_parts) or any(len(ps) != 1 for ps in psets):
            rec.violation("single-response cube set yields partition sets %r, the cube itself "
                          "has %d partition(s)" % ([len(ps) for ps in psets], len(ref_parts)),
                          "single-set-shape")
            return
        for k, (ps, ref) in enumerate(zip(psets, ref_parts)):
            if type(ps[0]) is not type(ref):
                rec.violation("single-response cube set partition %d is a %s, the cube's is a "
                              "%s" % (k, type(ps[0]).__name__, type(ref).__name__),
                              "single-set-type")
                return
            compare_parts(ps[0], ref, rec, "single-response set partition %d:" % k)
        return
    if kind == "numeric":
        m = {"var": "x", "stats": ["mean"], "valid_counts": True}
        qs = [{"dims": [], "weighted": w, "measure": m}] + [
            {"dims": [{"var": c}], "weighted": w, "measure": m} for c in case["cols"]]
    elif kind == "ca0":
        extra = {}
        if "x" in sv["vars"]:
            extra = {"measure": {"var": "x", "stats": ["mean", "sum"], "valid_counts": False}}
            rec.event("CA-as-0th with a numeric summary")
        qs = [dict({"dims": [{"var": "r", "part": "items"}, {"var": "r", "part": "cats"}],
                    "weighted": w}, **extra)] + [
            dict({"dims": [{"var": "r", "part": "items"}, {"var": "r", "part": "cats"},
                           {"var": c}], "weighted": w}, **extra) for c in case["cols"]]
    else:
        qs = [{"dims": [{"var": "r"}], "weighted": w}] + [
            {"dims": [{"var": "r"}, {"var": c}], "weighted": w} for c in case["cols"]]
    resps = [zz9enc.encode(sv, q) for q in qs]
    cs = lib.CubeSet(copy.deepcopy(resps), [{} for _ in resps], case["population"],
                     case["min_base"])
    psets = cs.partition_sets
    rec.nontrivial(len(resps) > 1)
    if kind == "tabbook":
        rec.compared()
        if len(psets) != 1 or len(psets[0]) != len(resps):
            rec.violation("tabbook partition_sets shape %r" % ([len(s) for s in psets],),
                          "set-shape")
            return
        for j, (resp, q) in enumerate(zip(resps, qs)):
            ref = lib.cube(resp, {}, case["population"], case["min_base"]).partitions[0]
            compare_parts(psets[0][j], ref, rec, "tabbook cube %d:" % j)
    elif kind == "ca0":
        ca = sv["vars"]["r"]
        k_items = len(ca["items"])
        rec.compared()
        if len(psets) != k_items or any(len(s) != len(resps) for s in psets):
            rec.violation("CA-as-0th partition_sets shape %r for %d items" % (
                [len(s) for s in psets], k_items), "set-shape")
            return
        for k in range(k_items):
            # --- univariate analysis of sub-variable k
            sv2 = copy.deepcopy(sv)
            sv2["vars"]["r"] = {
                "type": "cat", "flavour": "cat", "alias": "r", "name": ca["name"],
                "cats": ca["cats"], "answers": [a[k] for a in ca["answers"]],
                "use_order_key": False, "view_insertions": None}
            ref1 = lib.cube(zz9enc.encode(sv2, dict({"dims": [{"var": "r"}], "weighted": w},
                                                    **extra)), {},
                            case["population"], case["min_base"]).partitions[0]
            compare_parts(psets[k][0], ref1, rec, "CA-as-0th strand %d:" % k,
                          skip=("title",),
                          sigmap={n_: "ca0-strand-numeric-measures"
                                  for n_ in ("means", "sums", "share_sum", "smoothed_means",
                                             "stddev", "medians")} if extra else None)
            want = "%s: %s" % (ca["name"], ca["items"][k]["name"])
            if psets[k][0].table_name != want:
                rec.violation("strand table_name %r, expected %r" % (
                    psets[k][0].table_name, want), "table-name")
            for j, c in enumerate(case["cols"]):
                ref2 = lib.cube(zz9enc.encode(sv2, dict({"dims": [{"var": "r"}, {"var": c}],
                                                         "weighted": w}, **extra)), {},
                                case["population"], case["min_base"]).partitions[0]
                compare_parts(psets[k][j + 1], ref2, rec, "CA-as-0th slice %d/%d:" % (k, j))
    else:
        # numeric summaries: 0-D / 1-D cubes padded with a one-row dimension
        rec.compared()
        if len(psets) != 1 or len(psets[0]) != len(resps):
            rec.violation("numeric partition_sets shape %r" % ([len(s) for s in psets],),
                          "set-shape")
            return
        nub = lib.cube(resps[0]).partitions[0]
        p0 = psets[0][0]
        rec.compared(2)
        got = np.asarray(p0.means, dtype=float)
        if got.shape != (1,) or not close(got[0], np.asarray(nub.means).item()
                                          if nub.means is not None else None):
            rec.violation("padded 0-D mean %r, un-padded %r" % (got.tolist(), nub.means),
                          "padded-nub")
        for j in range(1, len(resps)):
            ref = lib.cube(resps[j]).partitions[0]
            pj = psets[0][j]
            for name in ("means", "counts", "unweighted_counts"):
                a = np.asarray(getattr(pj, name), dtype=float)
                b = np.asarray(getattr(ref, name), dtype=float)
                rec.compared()
                if a.shape != (1,) + b.shape or not _arr_eq(a[0], b):
                    rec.violation("padded 1-D %s %r, un-padded %r" % (
                        name, a.tolist(), b.tolist()), "padded-" + name)
            if list(pj.column_labels) != list(ref.row_labels):
                rec.violation("padded column labels %r != %r" % (
                    list(pj.column_labels), list(ref.row_labels)), "padded-labels")


SUBCHECKS = [
    SubCheck("three-d", case3d_st(), judge_3d, quick=3200, thorough=40000),
    SubCheck("cube-sets", case_set_st(), judge_set, quick=1600, thorough=20000),
]
