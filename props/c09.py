"""C09 - visibility: hidden iff asked, pruned iff empty by unweighted counts."""
import numpy as np
from hypothesis import strategies as st

from engine import lib, scen, spec_order, xforms, zz9enc
from engine.oracle import (Oracle, apparent_dims, empty_cols, empty_rows,
                           empty_strand_rows)
from engine.runner import SubCheck, fuzz_subcheck
from props.c07 import _refs

PROPERTY = "C09"
RULE = (
    "Random surveys with zero-heavy / fractional weights, items never selected or never "
    "shown, empty categories, every hide/prune flag combination on both dimensions (2-D, "
    "3-D slices, strands), with subtotals incl. `hide`-flagged ones; the set of displayed "
    "base elements and subtotals (row_order/column_order/shape/is_empty/labels) is compared "
    "with: visible iff not hidden and not (prune and empty), emptiness decided from "
    "respondents (unweighted eligibility). Non-trivial: at least one element empty by the "
    "oracle while pruning is on, or an element with zero weighted but positive unweighted "
    "count, or a hidden element."
)
BOUNDS = "respondents 0..24, valid categories 1..4, items 1..3, insertions 0..3"
ASSUMPTIONS = [
    "order is left at payload / explicit (C07); sort-by-value visibility is covered by C08",
]

SHAPES = [("cat", "cat")] * 3 + [("cat", "mr")] * 2 + [("mr", "cat")] * 2 + [("mr", "mr")] * 3 + [
    ("cai", "cac"), ("cac", "cai"), ("cat_date", "mr"), ("text", "cat"),
    ("cat", "cat", "cat"), ("cat", "mr", "mr"), ("mr", "cat", "mr"), ("mr", "mr", "cat"),
    ("cai", "cac", "mr"), ("na", "cat"), ("na", "mr"),
    # enum-backed dimensions: elements are addressed by value (datetime) or position id
    ("datetime", "cat"), ("cat", "datetime"), ("datetime", "mr"), ("numeric", "cat"),
    ("cat", "logical")]


@st.composite
def case_st(draw, shapes):
    sc = draw(scen.scenario_st(shapes, measure="none", allow_order_key=True,
                               weight_kinds=("none", "zeroheavy", "zeroheavy", "dyadic")))
    sv, q = sc["survey"], sc["query"]
    # derived (zz9-computed) MR items: they must obey hide / prune like any other item
    from props.c07 import _add_derived
    for var in sv["vars"].values():
        if var["type"] == "mr" and draw(st.booleans()):
            _add_derived(draw, var)
    is_na = bool(q.get("measure"))
    dims = q["dims"][-2:]
    names = ["rows_dimension", "columns_dimension"]
    if is_na:
        dims = [None] + q["dims"][-1:]
    if len(q["dims"]) == 1 and not is_na:
        names = ["rows_dimension"]
    tx, meta = {}, {}
    for name, d in zip(names, dims):
        t = {}
        inforce = []
        if d is None:
            var, part = sv["vars"]["na"], None
        else:
            var, part = sv["vars"][d["var"]], d.get("part")
        if d is not None and xforms.can_insert(var, part) and draw(st.booleans()):
            v, m = xforms.dim_ids(var, part)
            t["insertions"] = draw(xforms.insertions_st(v, m, max_ins=3))
            inforce = t["insertions"]
        refs = xforms.element_refs(var, part)
        if draw(st.integers(0, 2)) == 0:
            t["order"] = {"type": "explicit", "element_ids": draw(xforms.explicit_ids_st(refs))}
        elements, prune = draw(xforms.hide_prune_st(refs, p_hide=2, p_prune=1))
        if elements:
            t["elements"] = elements
        if prune:
            t["prune"] = True
        hidden_refs = list(elements)
        derived = [it for it in var.get("items", []) if it.get("derived")] \
            if var["type"] == "mr" else []
        if derived and draw(st.integers(0, 2)) == 0:
            # a derived item is suppressed by a copy of its (variable-level) insertion
            # carrying "hide": true - an element transform for the same item (a fill, a
            # rename) does not ask for it to be shown again
            it = draw(st.sampled_from(derived))
            t.setdefault("insertions", []).append(
                {"function": "any_selected", "name": it["sid"], "anchor": "top",
                 "args": [], "hide": True})
            extra = draw(st.sampled_from([None, {"fill": "#ff0000"}, {"name": "REN"}, {}]))
            if extra is not None and it["alias"] not in (t.get("elements") or {}):
                t.setdefault("elements", {})[it["alias"]] = extra
            hidden_refs.append(it["alias"])
        if t:
            tx[name] = t
        meta[name] = {"insertions": inforce, "hidden_refs": hidden_refs, "prune": prune}
    sc["transforms"] = tx
    sc["meta"] = meta
    return sc


def _expect(odim, meta, empties, drop_subtotals):
    refs = [str(x) for x in _refs(odim)]
    hidden = set(i for i, r in enumerate(refs) if r in set(meta["hidden_refs"]))
    if meta["prune"]:
        hidden |= set(empties)
    can = odim.kind in ("cat", "ca_cats")
    vins = spec_order.valid_insertions(meta["insertions"] if can else [], odim.keys if can else [])
    vis_el = [i for i in range(odim.n) if i not in hidden]
    vis_ins = [] if drop_subtotals else list(range(len(vins)))
    return vis_el, vis_ins, vins, hidden


def _check_dim(rec, which, odim, meta, empties, drop_subtotals, order, labels, counts_axis):
    vis_el, vis_ins, vins, hidden = _expect(odim, meta, empties, drop_subtotals)
    got = [int(x) for x in order]
    m = len(vins)
    got_el = sorted(i for i in got if i >= 0)
    got_ins = sorted(i + m for i in got if i < 0)
    rec.compared()
    if len(set(got)) != len(got):
        rec.violation("%s order lists a vector twice: %r" % (which, got), "duplicate")
    if got_el != vis_el:
        missing = sorted(set(vis_el) - set(got_el))
        extra = sorted(set(got_el) - set(vis_el))
        rec.violation(
            "%s: displayed base elements %r, expected %r (hidden %r, prune=%s, empty by "
            "unweighted eligibility %r; wrongly absent %r, wrongly shown %r)"
            % (which, got_el, vis_el, meta["hidden_refs"], meta["prune"], list(empties),
               missing, extra), "elements")
    if got_ins != vis_ins:
        rec.violation("%s: displayed subtotals %r, expected %r (drop=%s)" % (
            which, got_ins, vis_ins, drop_subtotals), "subtotals")
    el_labels = odim.labels()
    want_labels = [el_labels[i] if i >= 0 else vins[i + m]["name"] for i in got
                   if (i >= 0 and i < odim.n) or (i < 0 and 0 <= i + m < m)]
    if [str(x) for x in labels] != [str(x) for x in want_labels]:
        rec.violation("%s labels %r not aligned with order %r" % (which, list(labels), got),
                      "labels")
    if meta["prune"] and empties:
        rec.nontrivial()
        rec.event("pruned empty element")
    if meta["hidden_refs"]:
        rec.nontrivial()
    if drop_subtotals and vins:
        rec.event("subtotals dropped")
        rec.nontrivial()


def judge(case, rec):
    sv, q = case["survey"], case["query"]
    resp = zz9enc.encode(sv, q)
    cube = lib.cube(resp, case["transforms"])
    for _p in cube.partitions:
        lib.warm(_p, case.get("warmup"))
    dims = apparent_dims(sv, q)
    nd = len(dims)
    rec.event("shape=" + "x".join(case["shape"]))
    meta = case["meta"]
    if nd == 1:
        part = cube.partitions[0]
        orc = Oracle(sv, q)
        emp = empty_strand_rows(orc)
        _check_dim(rec, "strand rows", orc.rows, meta["rows_dimension"], emp, False,
                   part.row_order(), part.row_labels, None)
        n = len(part.row_order())
        if tuple(part.shape) != (n,) or bool(part.is_empty) != (n == 0):
            rec.violation("strand shape %r / is_empty %r for %d rows" % (
                part.shape, part.is_empty, n), "shape1")
        _weighted_zero_event(orc, rec, strand=True)
        return
    tkeys = dims[0].keys if nd == 3 else [None]
    for part, tkey in zip(cube.partitions, tkeys):
        orc = Oracle(sv, q, table_key=tkey)
        er, ec = empty_rows(orc), empty_cols(orc)
        mr_, mc_ = meta["rows_dimension"], meta["columns_dimension"]
        drop_r = mc_["prune"] and len(ec) == orc.cols.n
        drop_c = mr_["prune"] and len(er) == orc.rows.n
        _check_dim(rec, "rows", orc.rows, mr_, er, drop_r, part.row_order(), part.row_labels, 0)
        _check_dim(rec, "columns", orc.cols, mc_, ec, drop_c, part.column_order(),
                   part.column_labels, 1)
        nr, nc = len(part.row_order()), len(part.column_order())
        rec.compared()
        if tuple(part.shape) != (nr, nc) or bool(part.is_empty) != (nr == 0 or nc == 0):
            rec.violation("shape %r / is_empty %r for order lengths %d x %d" % (
                part.shape, part.is_empty, nr, nc), "shape")
        # --- direct clause: a vector with a positive unweighted count is never pruned
        ref = lib.cube(resp, _only_insertions(case["transforms"])).partitions[
            list(cube.partitions).index(part)]
        uc = np.asarray(ref.unweighted_counts, dtype=float)
        ro = [int(x) for x in ref.row_order()]
        co = [int(x) for x in ref.column_order()]
        shown_r = set(int(x) for x in part.row_order())
        shown_c = set(int(x) for x in part.column_order())
        hid_r = set(i for i, r in enumerate(_refs(orc.rows)) if str(r) in set(mr_["hidden_refs"]))
        hid_c = set(i for i, r in enumerate(_refs(orc.cols)) if str(r) in set(mc_["hidden_refs"]))
        for p, i in enumerate(ro):
            if i >= 0 and i not in hid_r and i not in shown_r:
                if np.nansum(uc[p, [k for k, j in enumerate(co) if j >= 0]]) > 0:
                    rec.violation("row %d has a positive unweighted count but is pruned" % i,
                                  "pruned-nonempty-row")
        for p, j in enumerate(co):
            if j >= 0 and j not in hid_c and j not in shown_c:
                if np.nansum(uc[[k for k, i in enumerate(ro) if i >= 0], p]) > 0:
                    rec.violation("column %d has a positive unweighted count but is pruned" % j,
                                  "pruned-nonempty-col")
        _weighted_zero_event(orc, rec, strand=False)


def _only_insertions(tx):
    out = {}
    for k, v in (tx or {}).items():
        if "insertions" in v:
            out[k] = {"insertions": v["insertions"]}
    return out


def _weighted_zero_event(orc, rec, strand):
    """Counts cases where weighted-empty != unweighted-empty (the clause that matters)."""
    if orc.W is None:
        return
    for k in orc.rows.keys:
        s = ("el", k)
        if strand:
            u, w = orc.count1(s, False), orc.count1(s, True)
        else:
            u = sum(orc.count(s, ("el", c), False) for c in orc.cols.keys)
            w = sum(orc.count(s, ("el", c), True) for c in orc.cols.keys)
        if u > 0 and w == 0:
            rec.nontrivial()
            rec.event("weighted-empty but unweighted-nonempty")
            return


SUBCHECKS = [
    SubCheck("slices", case_st(SHAPES), judge, quick=2400, thorough=40000),
    SubCheck("strands", case_st([("cat",), ("mr",), ("mr",), ("cat_date",), ("na",), ("datetime",),
                                 ("text",)]), judge,
             quick=1200, thorough=20000),
    fuzz_subcheck("fuzz-slices", "slices", quick_runs=0, thorough_runs=8000),
]
