"""C19 - array items may be referenced by alias, sub-variable id or element id alike."""
import copy

import numpy as np
from hypothesis import strategies as st

from engine import lib, scen, xforms, zz9enc
from engine import survey as S
from engine.cmp import close
from engine.oracle import apparent_dims
from engine.runner import SubCheck, fuzz_subcheck

PROPERTY = "C19"
RULE = (
    "Random array dimensions (MR with and without derived items, CA items, numeric array; "
    "element ids 0-based, 1-based or sparse) and datetime dimensions; for a chosen item X and "
    "each transform slot that takes an element reference (element hide / rename, explicit "
    "order, fixed top / bottom, sort by opposing element) the transform is written once per "
    "spelling of X (alias, sub-variable id, element id as int and as str, zero-based position "
    "when it is no element id; datetime: position id int/str and value) and all runs must "
    "give identical labels, order and values and show the intended effect; adding a reference "
    "that matches nothing (unknown string, out-of-range or negative int, None) must change "
    "nothing and not raise. Non-trivial: a spelling resolving through a rule other than "
    "'alias'."
)
BOUNDS = "items 1..4, respondents 0..16"
ASSUMPTIONS = [
    "sub-check zz9-id-scheme asserts the precedence the library documents for an MR with "
    "insertions (element id written as a string wins over an equal sub-variable id of another "
    "item); only alias / element-id spellings of real items are compared there",
    "a spelling that is also a spelling of another item (collision) is not used: the "
    "statement cannot define a winner",
    "element-transform keys are strings or ints (JSON object keys / python dicts)",
]

SHAPES = [("cat", "mr"), ("mr", "cat"), ("mr", "mr"), ("cai", "cac"), ("cac", "cai"),
          ("na", "cat"), ("cat", "datetime"), ("datetime", "cat"), ("mr",), ("na",),
          ("datetime",), ("cat", "mr"), ("mr", "cat")]
SLOTS = ["hide", "rename", "explicit_first", "fixed_top", "fixed_bottom", "sort_key"]


@st.composite
def case_st(draw):
    shape = draw(st.sampled_from(SHAPES))
    n = draw(S.n_st(16))
    svars, dims = {}, []
    for i, tok in enumerate(shape):
        alias = "v%d" % i
        if tok == "mr":
            svars[alias] = draw(S.mr_var_st(alias, n, max_items=4, derived=True))
            dims.append({"var": alias})
        elif tok in ("cai", "cac"):
            if "ca" not in svars:
                svars["ca"] = draw(S.ca_var_st("ca", n, max_items=4, max_valid=3))
            dims.append({"var": "ca", "part": "items" if tok == "cai" else "cats"})
        elif tok == "na":
            svars["na"] = draw(S.numarr_var_st("na", n, max_items=4))
        else:
            svars[alias] = draw(S.cat_var_st(alias, n, flavour=tok, max_valid=4,
                                             allow_order_key=False))
            dims.append({"var": alias})
    sv = {"n": n, "weights": None, "vars": svars}
    q = {"dims": dims, "weighted": False}
    if "na" in shape:
        q["measure"] = {"var": "na", "stats": ["mean"], "valid_counts": True}
    sc = {"survey": sv, "query": q, "shape": list(shape)}
    # --- candidate (dimension position, kind)
    ap = (["na"] if "na" in shape else []) + [t for t in shape if t != "na"]
    cands = [k for k, t in enumerate(ap) if t in ("mr", "cai", "na", "datetime")]
    sc["axis"] = draw(st.sampled_from(cands))
    sc["slot"] = draw(st.sampled_from(SLOTS if len(ap) == 2 else SLOTS[:-1]))
    sc["pick"] = draw(st.integers(0, 3))
    sc["stale"] = draw(st.sampled_from(["zzz", 99, -5, None, "99"]))
    sc["direction"] = draw(st.sampled_from(["ascending", "descending"]))
    return sc


def spellings(dim):
    """{rule: spelling} for every element of an array / datetime dimension."""
    out = []
    if dim.kind in ("cat",):  # datetime
        cats = dim.valid
        for c in cats:
            out.append({"alias": c["evalue"], "position-int": c["id"],
                        "position-str": str(c["id"])})
        return out
    items = dim.var["items"]
    eids = [it["eid"] for it in items]
    sids = [it["sid"] for it in items]
    aliases = [it["alias"] for it in items]
    has_derived = any(it.get("derived") for it in items)
    for pos, it in enumerate(items):
        sp = {"alias": it["alias"], "subvar-id": it["sid"], "element-id-int": it["eid"],
              "element-id-str": str(it["eid"])}
        if pos not in eids:
            sp["position-int"] = pos
            sp["position-str"] = str(pos)
        # --- drop spellings that also spell another item
        for rule in list(sp):
            v = sp[rule]
            for opos, other in enumerate(items):
                if opos == pos:
                    continue
                others = {other["alias"], other["sid"], other["eid"], str(other["eid"])}
                if v in others or str(v) in {str(x) for x in others}:
                    sp.pop(rule, None)
        out.append(sp)
    return out


def build_transforms(case, own_name, opp_name, ref, extra=None):
    slot = case["slot"]
    refs = [ref] if extra is None else [ref, extra]
    if slot == "hide":
        el = {r: {"hide": True} for r in [ref]}
        if extra is not None and extra is not None and isinstance(extra, (str, int)):
            el[extra] = {"hide": True}
        return {own_name: {"elements": el}}
    if slot == "rename":
        el = {ref: {"name": "RENAMED"}}
        if extra is not None and isinstance(extra, (str, int)):
            el[extra] = {"name": "OTHER"}
        return {own_name: {"elements": el}}
    if slot == "explicit_first":
        ids = ([extra] if extra is not None or case.get("_none") else []) + [ref]
        return {own_name: {"order": {"type": "explicit", "element_ids": ids}}}
    if slot in ("fixed_top", "fixed_bottom"):
        key = "top" if slot == "fixed_top" else "bottom"
        ids = [ref] + ([extra] if extra is not None or case.get("_none") else [])
        return {own_name: {"order": {"type": "label", "direction": case["direction"],
                                     "fixed": {key: ids}}}}
    # sort the OPPOSING dimension by this element
    return {opp_name: {"order": {"type": "opposing_element", "element_id": ref,
                                 "measure": "count_unweighted",
                                 "direction": case["direction"]}}}


def observe(part):
    out = {"row_labels": [str(x) for x in part.row_labels],
           "row_order": [int(x) for x in part.row_order()],
           "counts": np.asarray(part.unweighted_counts, dtype=float)}
    if hasattr(part, "column_labels"):
        out["column_labels"] = [str(x) for x in part.column_labels]
        out["column_order"] = [int(x) for x in part.column_order()]
    return out


def same(a, b):
    for k in a:
        if k == "counts":
            if a[k].shape != b[k].shape or not all(
                    close(x, y) for x, y in zip(a[k].ravel(), b[k].ravel())):
                return k
        elif a[k] != b[k]:
            return k
    return None


def judge(case, rec):
    sv, q = case["survey"], case["query"]
    resp = zz9enc.encode(sv, q)
    dims = apparent_dims(sv, q)
    strand = len(dims) == 1
    axis = case["axis"]
    own = dims[axis]
    names = ["rows_dimension"] if strand else ["rows_dimension", "columns_dimension"]
    own_name = names[axis]
    opp_name = names[1 - axis] if not strand else None
    rec.event("shape=" + "x".join(case["shape"]))
    rec.event("slot=" + case["slot"])
    sp_all = spellings(own)
    if not sp_all:
        return
    x = case["pick"] % len(sp_all)
    sp = sp_all[x]
    if "alias" not in sp:
        return
    case = dict(case)
    base = lib.cube(resp, {}).partitions[0]
    ob_base = observe(base)
    runs = {}
    for rule, ref in sp.items():
        tx = build_transforms(case, own_name, opp_name, ref)
        runs[rule] = observe(lib.cube(resp, tx).partitions[0])
    canon = runs["alias"]
    if len(sp) > 1:
        rec.nontrivial()
    for rule, ob in runs.items():
        rec.compared()
        k = same(canon, ob)
        if k is not None:
            rec.violation(
                "slot %s: referencing item %d as %r (%s) gives %s %r, as alias %r gives %r" % (
                    case["slot"], x, sp[rule], rule, k,
                    ob[k].tolist() if k == "counts" else ob[k], sp["alias"],
                    canon[k].tolist() if k == "counts" else canon[k]),
                "spelling-" + rule)
    # --- intended effect (judged on the alias run, hence on all of them)
    own_labels_key = "row_labels" if axis == 0 else "column_labels"
    own_order_key = "row_order" if axis == 0 else "column_order"
    rec.compared()
    slot = case["slot"]
    if slot == "hide":
        if x in canon[own_order_key] or len(canon[own_order_key]) != len(ob_base[own_order_key]) - 1:
            rec.violation("hide: item %d still displayed: %r" % (x, canon[own_order_key]),
                          "effect-hide")
    elif slot == "rename":
        pos = ob_base[own_order_key].index(x)
        if canon[own_labels_key][pos] != "RENAMED":
            rec.violation("rename: label of item %d is %r" % (x, canon[own_labels_key][pos]),
                          "effect-rename")
    elif slot == "explicit_first":
        derived = [i for i, it in enumerate(own.var.get("items", [])) if it.get("derived")] \
            if own.kind != "cat" else []
        first_base = [i for i in canon[own_order_key] if i not in derived]
        if x not in derived and (not first_base or first_base[0] != x):
            rec.violation("explicit order [X]: item %d is not first: %r" % (
                x, canon[own_order_key]), "effect-explicit")
    elif slot == "fixed_top":
        if canon[own_order_key][0] != x:
            rec.violation("fixed top: item %d is not first: %r" % (x, canon[own_order_key]),
                          "effect-fixed-top")
    elif slot == "fixed_bottom":
        if canon[own_order_key][-1] != x:
            rec.violation("fixed bottom: item %d is not last: %r" % (x, canon[own_order_key]),
                          "effect-fixed-bottom")
    else:
        # opposing dimension sorted by item x: monotone in the base counts of that vector
        opp_order_key = "column_order" if axis == 0 else "row_order"
        C = ob_base["counts"]
        vec = C[x, :] if axis == 0 else C[:, x]
        seq = [vec[j] for j in canon[opp_order_key] if j >= 0]
        desc = case["direction"] != "ascending"
        if any((a < b) if desc else (a > b) for a, b in zip(seq, seq[1:])):
            rec.violation("sort by item %d: opposing order %r has counts %r" % (
                x, canon[opp_order_key], seq), "effect-sort")
    # --- a reference that matches nothing is ignored
    stale = case["stale"]
    if slot in ("hide", "rename") and stale is None:
        stale = "zzz"
    if slot == "sort_key":
        tx = build_transforms(case, own_name, opp_name, stale)
        ob = observe(lib.cube(resp, tx).partitions[0])
        rec.compared()
        k = same(ob_base, ob)
        if k is not None:
            rec.violation("sort by unknown element %r: %s %r differs from the untransformed "
                          "%r" % (stale, k, ob[k], ob_base[k]), "stale-sort")
    else:
        case["_none"] = stale is None
        tx = build_transforms(case, own_name, opp_name, sp["alias"], extra=stale)
        ob = observe(lib.cube(resp, tx).partitions[0])
        rec.compared()
        k = same(canon, ob)
        if k is not None:
            rec.violation("adding the unmatched reference %r changes %s: %r vs %r" % (
                stale, k, ob[k], canon[k]), "stale-ref")
        if slot in ("hide", "rename"):
            # --- several unmatched references listed BEFORE the live one (they all translate
            # --- to "nothing"; the live key must keep its own transform)
            t_x = {"hide": True} if slot == "hide" else {"name": "RENAMED"}
            el = {stale: {"name": "S1"}, "yyy": {"hide": True}, -7: {"name": "S3"},
                  sp["alias"]: t_x}
            ob = observe(lib.cube(resp, {own_name: {"elements": el}}).partitions[0])
            rec.compared()
            k = same(canon, ob)
            if k is not None:
                rec.violation("unmatched references %r, 'yyy', -7 listed before the live one "
                              "change %s: %r vs %r" % (stale, k, ob[k], canon[k]),
                              "stale-refs-first")
            # --- two spellings of item x (same transform) listed before another live item y
            others = [i for i, o in enumerate(sp_all) if i != x and "alias" in o]
            alt = [r for r in sp if r != "alias"]
            if others and alt:
                y = others[case["pick"] % len(others)]
                t_y = {"name": "OTHER"}
                ref_el = {sp["alias"]: t_x, sp_all[y]["alias"]: t_y}
                dup_el = {sp[alt[0]]: t_x, sp["alias"]: t_x}
                if len(alt) > 1:
                    dup_el[sp[alt[-1]]] = t_x
                dup_el[sp_all[y]["alias"]] = t_y
                o_ref = observe(lib.cube(resp, {own_name: {"elements": ref_el}}).partitions[0])
                o_dup = observe(lib.cube(resp, {own_name: {"elements": dup_el}}).partitions[0])
                rec.event("duplicate spellings before another item")
                rec.compared()
                k = same(o_ref, o_dup)
                if k is not None:
                    rec.violation("item %d spelled %r (same transform each) before item %d: %s "
                                  "%r, with one spelling %r" % (
                                      x, list(dup_el)[:-1], y, k, o_dup[k], o_ref[k]),
                                  "duplicate-spellings")
        # second use of the same (rewritten in place) dictionaries must work too
        tx2 = build_transforms(case, own_name, opp_name, sp["alias"], extra=stale)
        c1 = lib.Cube(copy.deepcopy(resp), transforms=tx2)
        o1 = observe(c1.partitions[0])
        o2 = observe(lib.Cube(copy.deepcopy(resp), transforms=tx2).partitions[0])
        rec.compared()
        if same(o1, o2) is not None or same(o1, canon) is not None:
            rec.violation("re-using the transforms dict (rewritten in place) changes the "
                          "result", "stale-ref-reuse")


# ------------------------------------------------------------------ zz9 id scheme
@st.composite
def zz9_case_st(draw):
    """The id scheme real zz9 payloads use for an MR with insertions: element ids 1..n in
    payload order (derived items included), sub-variable ids "1".."m" for the m real items
    (the derived item's sub-variable id is its name).  Then str(element id) of one item can
    equal the sub-variable id of ANOTHER item; the library documents that the element id
    wins when the MR has insertions (comment + example in translate_element_id)."""
    n = draw(S.n_st(16))
    var = draw(S.mr_var_st("m", n, min_items=2, max_items=4, eid_scheme="one"))
    S.add_derived_item(draw, var)
    real = 0
    for pos, it in enumerate(var["items"]):
        it["eid"] = pos + 1
        if it.get("derived"):
            it["sid"] = it["name"]
        else:
            real += 1
            it["sid"] = str(real)
    other = draw(S.cat_var_st("c", n, max_valid=4, allow_order_key=False))
    mr_first = draw(st.booleans())
    svars = {"m": var, "c": other}
    dims = [{"var": "m"}, {"var": "c"}] if mr_first else [{"var": "c"}, {"var": "m"}]
    return {"survey": {"n": n, "weights": None, "vars": svars},
            "query": {"dims": dims, "weighted": False}, "shape": ["zz9-mr-hs"],
            "axis": 0 if mr_first else 1,
            "slot": draw(st.sampled_from(SLOTS)), "pick": draw(st.integers(0, 4)),
            "direction": draw(st.sampled_from(["ascending", "descending"]))}


def judge_zz9(case, rec):
    sv, q = case["survey"], case["query"]
    resp = zz9enc.encode(sv, q)
    dims = apparent_dims(sv, q)
    axis = case["axis"]
    own = dims[axis]
    names = ["rows_dimension", "columns_dimension"]
    own_name, opp_name = names[axis], names[1 - axis]
    items = own.var["items"]
    real = [i for i, it in enumerate(items) if not it.get("derived")]
    x = real[case["pick"] % len(real)]
    it = items[x]
    rec.event("slot=" + case["slot"])
    # spellings the documentation defines for a REAL item of an MR with insertions
    sp = {"alias": it["alias"], "element-id-int": it["eid"], "element-id-str": str(it["eid"])}
    collides = any(o["sid"] == str(it["eid"]) for k, o in enumerate(items) if k != x)
    if collides:
        rec.nontrivial()
        rec.event("str(element id) equals another item's sub-variable id")
    runs = {rule: observe(lib.cube(resp, build_transforms(case, own_name, opp_name, ref))
                          .partitions[0]) for rule, ref in sp.items()}
    for rule, ob in runs.items():
        rec.compared()
        k = same(runs["alias"], ob)
        if k is not None:
            rec.violation(
                "MR with insertions, zz9 id scheme: item %d referenced as %r (%s) gives %s %r "
                "but as alias %r gives %r" % (x, sp[rule], rule, k,
                                              ob[k].tolist() if k == "counts" else ob[k],
                                              sp["alias"], runs["alias"][k].tolist()
                                              if k == "counts" else runs["alias"][k]),
                "zz9-" + rule)


SUBCHECKS = [
    SubCheck("spellings", case_st(), judge, quick=3200, thorough=40000),
    SubCheck("zz9-id-scheme", zz9_case_st(), judge_zz9, quick=1600, thorough=20000),
    # coverage-guided tier (thorough only): atheris drives the same strategy and judge
    fuzz_subcheck("fuzz-spellings", "spellings", quick_runs=0, thorough_runs=12000),
]
