"""C02 - bases and margins count exactly the respondents eligible for the denominator."""
import numpy as np
from hypothesis import strategies as st

from engine import lib, scen, xforms, zz9enc
from engine.cmp import close
from engine.oracle import Oracle, apparent_dims
from engine.runner import SubCheck

PROPERTY = "C02"
RULE = (
    "Random surveys with per-item missingness, all 2-D/3-D pairings and 1-D strands, with "
    "random subtotal/difference insertions; each of the six per-cell base matrices, the "
    "margins, table base/margin (scalar/1-D/2-D), [min,max] ranges and the min-base mask "
    "is compared with the number of respondents eligible for that denominator, counted "
    "one by one. Non-trivial: an MR/array dimension whose items differ in missingness, or "
    "weights other than 1, or a subtotal present."
)
BOUNDS = "respondents 0..24, valid categories 1..4, items 1..3, insertions 0..3 per dimension"
ASSUMPTIONS = [
    "own-direction base of a difference row/column is NaN (C04 statement); table base of a "
    "difference is the table base",
    "threshold for the mask drawn from 0..max base+1 (so equality is exercised)",
]

SHAPES = scen.SHAPES_2D * 2 + scen.SHAPES_NA[:2] + scen.SHAPES_3D


@st.composite
def case_st(draw, shapes):
    sc = draw(scen.scenario_st(shapes, measure="maybe", weight_kinds=scen.WEIGHTS_INEXACT))
    tx, inforce = draw(xforms.slice_insertions_st(sc, where="either", allow_malformed=False))
    sc["transforms"] = tx
    sc["insertions"] = inforce
    sc["mask_size"] = draw(st.integers(0, 12))
    # --- pruning on either / both dimensions: the displayed vectors shrink, every base,
    # --- margin, range and mask of what remains must not change (the judge follows the
    # --- reported order)
    flags = draw(st.sampled_from([(0, 0)] * 3 + [(1, 0), (0, 1), (1, 1), (1, 1)]))
    for name, f in zip(("rows_dimension", "columns_dimension"), flags):
        if f and len(sc["shape"]) >= 2:
            sc["transforms"] = dict(sc["transforms"] or {})
            sc["transforms"][name] = dict(sc["transforms"].get(name) or {}, prune=True)
    sc["prune_flags"] = list(flags)
    return sc


def _nontrivial(case, rec):
    sv, q = case["survey"], case["query"]
    if q.get("weighted") and sv["weights"] and any(w != 1 for w in sv["weights"]):
        rec.nontrivial()
    if case["insertions"]["rows"] or case["insertions"]["cols"]:
        rec.nontrivial()
    for d in q["dims"]:
        var = sv["vars"][d["var"]]
        if var["type"] == "mr":
            pat = set(tuple(a[i] == -1 for a in var["answers"]) for i in range(len(var["items"])))
            if len(pat) > 1:
                rec.nontrivial()


def _specs(part, orc, case):
    rs = lib.display_specs(part.row_order(), part.row_labels, orc.rows, case["insertions"]["rows"])
    cs = lib.display_specs(part.column_order(), part.column_labels, orc.cols,
                           case["insertions"]["cols"])
    return rs, cs


def judge_slice(case, rec):
    sv, q = case["survey"], case["query"]
    resp = zz9enc.encode(sv, q)
    cube = lib.cube(resp, case["transforms"], mask_size=case["mask_size"])
    dims = apparent_dims(sv, q)
    nd = len(dims)
    rec.event("shape=" + "x".join(case["shape"]))
    rec.event("prune=%s" % (case.get("prune_flags"),))
    _nontrivial(case, rec)
    tkeys = dims[0].keys if nd == 3 else [None]
    for part, tkey in zip(cube.partitions, tkeys):
        lib.warm(part, case.get("warmup"))
        orc = Oracle(sv, q, table_key=tkey)
        rspecs, cspecs = _specs(part, orc, case)
        nr, nc = len(rspecs), len(cspecs)
        mats = {
            "row_unweighted_bases": ("row", False), "row_weighted_bases": ("row", True),
            "column_unweighted_bases": ("col", False), "column_weighted_bases": ("col", True),
            "table_unweighted_bases": ("table", False), "table_weighted_bases": ("table", True),
        }
        exp = {}
        for name, (direction, weighted) in mats.items():
            got = np.asarray(getattr(part, name))
            if got.shape != (nr, nc):
                rec.violation("%s shape %r != %r" % (name, got.shape, (nr, nc)), "shape-" + name)
                continue
            e = np.full((nr, nc), np.nan)
            for i, r_ in enumerate(rspecs):
                for j, c_ in enumerate(cspecs):
                    if direction == "row":
                        v = None if orc.is_diff(r_) else orc.row_base(r_, c_, weighted)
                    elif direction == "col":
                        v = None if orc.is_diff(c_) else orc.col_base(r_, c_, weighted)
                    else:
                        v = orc.table_base(r_, c_, weighted)
                    e[i, j] = np.nan if v is None else v
                    rec.compared()
                    if not close(got[i, j], v):
                        rec.violation(
                            "%s[%d,%d] = %r but %r respondents are eligible (row %r, col %r)"
                            % (name, i, j, got[i, j], v, r_, c_), name)
            exp[name] = e
        if len(exp) < 6:
            continue
        # --- margins: collapsed forms of the per-cell bases
        for name, src, axis, opp in (
            ("rows_margin", "row_weighted_bases", 0, orc.cols),
            ("rows_base", "row_unweighted_bases", 0, orc.cols),
            ("columns_margin", "column_weighted_bases", 1, orc.rows),
            ("columns_base", "column_unweighted_bases", 1, orc.rows),
        ):
            got = np.asarray(getattr(part, name), dtype=float)
            e2 = exp[src]
            if opp.is_array:
                want = e2
            else:
                # independent of the opposing element: any one line of the matrix
                if axis == 0:
                    want = e2[:, 0] if nc else np.full((nr,), np.nan)
                else:
                    want = e2[0, :] if nr else np.full((nc,), np.nan)
                if (axis == 0 and nc == 0) or (axis == 1 and nr == 0):
                    continue
            rec.compared()
            if got.shape != want.shape or not _all_close(got, want):
                rec.violation("%s = %r, collapsed per-cell bases give %r" % (
                    name, got.tolist(), want.tolist()), name)
        # --- table base / margin
        for name, src in (("table_base", "table_unweighted_bases"),
                          ("table_margin", "table_weighted_bases")):
            got = np.asarray(getattr(part, name), dtype=float)
            e2 = exp[src]
            base_r = [i for i, s in enumerate(rspecs) if s[0] == "el"]
            base_c = [j for j, s in enumerate(cspecs) if s[0] == "el"]
            if orc.rows.is_array and orc.cols.is_array:
                want = e2
            elif orc.rows.is_array:
                if nc == 0:
                    continue
                want = e2[:, 0]
            elif orc.cols.is_array:
                if nr == 0:
                    continue
                want = e2[0, :]
            else:
                want = np.asarray(orc.table_base(("el", None), ("el", None),
                                                 name == "table_margin"), dtype=float)
            rec.compared()
            if got.shape != want.shape or not _all_close(got, want):
                rec.violation("%s = %r, respondents give %r" % (name, got.tolist(),
                                                               want.tolist()), name)
            # --- ranges over base cells, before any hiding
            rname = "table_base_range" if name == "table_base" else "table_margin_range"
            gr = np.asarray(getattr(part, rname), dtype=float)
            cells = [e2[i, j] for i in base_r for j in base_c]
            if any(case.get("prune_flags") or ()):
                # pruned vectors still count: the range spans ALL base cells
                cells = [orc.table_base(("el", rk), ("el", ck), name == "table_margin")
                         for rk in orc.rows.keys for ck in orc.cols.keys]
            if cells:
                wr = np.array([min(cells), max(cells)])
                rec.compared()
                if gr.shape != (2,) or not _all_close(gr, wr):
                    rec.violation("%s = %r, per-cell table bases span %r" % (
                        rname, gr.tolist(), wr.tolist()), rname)
        # --- min-base mask
        size = case["mask_size"]
        mask = part.min_base_size_mask
        for mname, src in (("row_mask", "row_unweighted_bases"),
                           ("column_mask", "column_unweighted_bases"),
                           ("table_mask", "table_unweighted_bases")):
            got = np.asarray(getattr(mask, mname))
            want = np.array([[(not np.isnan(x)) and x < size for x in row] for row in exp[src]],
                            dtype=bool).reshape(nr, nc)
            rec.compared()
            if got.shape != want.shape or (got != want).any():
                rec.violation("min_base_size_mask.%s = %r for threshold %d, bases %r" % (
                    mname, got.tolist(), size, exp[src].tolist()), "mask-" + mname)


def _all_close(a, b):
    a = np.asarray(a, dtype=float)
    b = np.asarray(b, dtype=float)
    if a.shape != b.shape:
        return False
    return all(close(x, y) for x, y in zip(a.ravel(), b.ravel()))


def judge_strand(case, rec):
    sv, q = case["survey"], case["query"]
    resp = zz9enc.encode(sv, q)
    cube = lib.cube(resp, case["transforms"], mask_size=case["mask_size"])
    rec.event("shape=" + "x".join(case["shape"]))
    _nontrivial(case, rec)
    part = cube.partitions[0]
    lib.warm(part, case.get("warmup"))
    orc = Oracle(sv, q)
    rspecs = lib.display_specs(part.row_order(), part.row_labels, orc.rows,
                               case["insertions"]["rows"])
    for name, weighted in (("unweighted_bases", False), ("weighted_bases", True)):
        got = np.asarray(getattr(part, name), dtype=float)
        want = []
        for s in rspecs:
            if orc.rows.is_array:
                want.append(orc.base1(s, weighted))
            else:
                want.append(orc.base1(("el", None), weighted))
        want = np.array(want, dtype=float)
        rec.compared(len(want))
        if got.shape != want.shape or not _all_close(got, want):
            rec.violation("strand %s = %r, eligible respondents %r" % (
                name, got.tolist(), want.tolist()), name)
        base_only = [w for w, s in zip(want, rspecs) if s[0] == "el"]
        rname = "table_base_range" if not weighted else "table_margin_range"
        gr = np.asarray(getattr(part, rname), dtype=float)
        if base_only:
            wr = np.array([min(base_only), max(base_only)])
            rec.compared()
            if not _all_close(gr, wr):
                rec.violation("strand %s = %r, bases span %r" % (rname, gr.tolist(),
                                                                wr.tolist()), rname)
        if not weighted:
            gm = np.asarray(part.min_base_size_mask)
            wm = want < case["mask_size"]
            rec.compared()
            if gm.shape != wm.shape or (gm != wm).any():
                rec.violation("strand min_base_size_mask %r, bases %r threshold %d" % (
                    gm.tolist(), want.tolist(), case["mask_size"]), "mask1")


# ------------------------------------------------------------- dimension without valid element
@st.composite
def empty_case_st(draw):
    sc = draw(scen.scenario_st([("cat", "cat"), ("cat", "cat"), ("cat", "mr"), ("mr", "cat"),
                                ("cat_date", "cat"), ("cat", "cat", "cat")],
                               measure="none", allow_order_key=False))
    sv, q = sc["survey"], sc["query"]
    cands = [k for k, d in enumerate(q["dims"][-2:]) if sv["vars"][d["var"]]["type"] == "cat"]
    which = draw(st.sampled_from(cands))
    var = sv["vars"][q["dims"][-2:][which]["var"]]
    for c in var["cats"]:
        c["missing"] = True      # every category of this variable is a missing reason
        c.pop("date", None)
    sc["which"] = which
    sc["transforms"] = {}
    sc["insertions"] = {"rows": [], "cols": []}
    sc["mask_size"] = draw(st.integers(0, 3))
    return sc


def judge_empty(case, rec):
    """A slice one of whose dimensions has no valid element has extent 0 in that direction;
    its per-cell bases and masks are (empty) arrays of the reported shape, its margins along
    the other dimension count nobody."""
    sv, q = case["survey"], case["query"]
    cube = lib.cube(zz9enc.encode(sv, q), {}, mask_size=case["mask_size"])
    rec.event("shape=" + "x".join(case["shape"]))
    rec.event("empty=%s" % ("rows" if case["which"] == 0 else "columns"))
    rec.nontrivial()
    for part in cube.partitions:
        shape = tuple(part.shape)
        rec.compared()
        if 0 not in shape or shape[case["which"]] != 0:
            rec.violation("shape %r although the %s variable has no valid category" % (
                shape, "rows" if case["which"] == 0 else "columns"), "empty-shape")
            continue
        for name in ("counts", "unweighted_counts", "row_unweighted_bases",
                     "row_weighted_bases", "column_unweighted_bases", "column_weighted_bases",
                     "table_unweighted_bases", "table_weighted_bases"):
            rec.compared()
            try:
                got = np.asarray(getattr(part, name))
            except IndexError as e:
                rec.violation("%s cannot be read on a slice of shape %r: IndexError %s" % (
                    name, shape, e), "bases-unreadable-without-valid-elements")
                continue
            if got.shape != shape:
                rec.violation("%s has shape %r on a slice of shape %r" % (
                    name, got.shape, shape), "empty-extent-" + name)


SUBCHECKS = [
    SubCheck("slice-bases", case_st(SHAPES), judge_slice, quick=2400, thorough=40000),
    SubCheck("strand-bases", case_st(scen.SHAPES_1D), judge_strand, quick=800, thorough=12000),
    SubCheck("empty-dimension", empty_case_st(), judge_empty, quick=400, thorough=4000),
]
