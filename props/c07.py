"""C07 - anchored ordering: payload or explicit element order with subtotals at anchors."""
import itertools

import numpy as np
from hypothesis import strategies as st

from engine import lib, scen, spec_order, xforms, zz9enc
from engine.oracle import Oracle, apparent_dims, empty_cols, empty_rows, empty_strand_rows
from engine.runner import SubCheck, fuzz_subcheck

PROPERTY = "C07"
RULE = (
    "Random (and, in the thorough tier, exhaustively enumerated small) dimensions with "
    "insertion lists (any anchors: top/bottom in any case, None, valid / hidden / missing / "
    "stale ids as int or str; with and without ids; view and/or analysis), explicit id "
    "lists (permutations, subsets, repeats, stale), hidden and pruned elements; the "
    "library's signed order, its ins_N rendering, labels and codes are compared with a "
    "constructive specification. Non-trivial: an insertion whose anchor is not bottom, or "
    "an explicit list that changes the order."
)
BOUNDS = ("random: <=5 valid (+<=2 missing) categories, <=4 insertions; exhaustive (thorough): "
          "n<=3 valid (+1 missing), <=2 insertions x all anchors x both spellings, all "
          "explicit lists up to length n+1 over ids+stale, all hidden subsets")
ASSUMPTIONS = [
    "anchors are top/bottom (any case), None or numeric ids; other strings are outside the "
    "documented domain",
    "emptiness for pruning comes from the respondent-level oracle (C09 rule)",
]
EXHAUSTIVE = True

SHAPES = [("cat", "cat")] * 4 + [("cat", "mr"), ("mr", "cat"), ("cat_date", "cat"),
                                  ("cat", "text"), ("numeric", "cat"), ("cai", "cac"),
                                  ("cac", "cai"), ("mr", "mr"), ("logical", "cat")]


@st.composite
def dim_transform_st(draw, var, part, allow_view=True):
    """Transforms for one dimension + the list of insertions in force."""
    t = {}
    inforce, from_view = [], True
    if xforms.can_insert(var, part):
        v, m = xforms.dim_ids(var, part)
        mode = draw(st.sampled_from(["none", "transform", "transform", "view", "both"]))
        if var["type"] != "cat" and mode in ("view", "both"):
            mode = "transform"
        if mode in ("view", "both") and allow_view:
            var["view_insertions"] = draw(xforms.insertions_st(v, m, max_ins=4))
            inforce, from_view = var["view_insertions"], True
        if mode in ("transform", "both"):
            t["insertions"] = draw(xforms.insertions_st(v, m, max_ins=4))
            inforce, from_view = t["insertions"], False
    refs = xforms.element_refs(var, part)
    explicit = None
    if draw(st.booleans()):
        explicit = draw(xforms.explicit_ids_st(refs))
        t["order"] = {"type": "explicit", "element_ids": explicit}
    elif draw(st.integers(0, 3)) == 0:
        t["order"] = {"type": "payload_order"}
    elements, prune = draw(xforms.hide_prune_st(refs))
    if elements:
        t["elements"] = elements
    if prune:
        t["prune"] = True
    return t, {"insertions": inforce, "from_view": from_view, "explicit": explicit,
               "hidden_refs": [k for k in elements], "prune": prune,
               "both": bool(var.get("view_insertions")) and "insertions" in t}


def _add_derived(draw, var):
    """Insert one more derived item (engine.survey.add_derived_item allows only one)."""
    from engine.survey import add_derived_item
    view = var.get("view_insertions") or []
    n_before = len(var["items"])
    add_derived_item(draw, var)
    new = [it for it in var["items"] if it.get("derived")]
    # unique alias / name / ids for the second and later derived items
    for k, it in enumerate(new):
        it["alias"] = "%s_d%d" % (var["alias"], k)
        it["sid"] = "%s#%d" % (it["name"], k)
        it["eid"] = 50 + k
    var["view_insertions"] = view + (var.get("view_insertions") or [])
    # anchors must reference non-derived items only
    base_aliases = [it["alias"] for it in var["items"] if not it.get("derived")]
    for it in new:
        a = it.get("anchor")
        if isinstance(a, dict) and a.get("alias") not in base_aliases:
            a["alias"] = base_aliases[0]
    return len(var["items"]) - n_before


@st.composite
def case_st(draw, shapes):
    sc = draw(scen.scenario_st(shapes, measure="none", max_valid=5, allow_order_key=False,
                               weight_kinds=("none", "int", "zeroheavy")))
    sv, q = sc["survey"], sc["query"]
    # --- derived (zz9-computed) MR items with top / bottom / before / after anchors
    for var in sv["vars"].values():
        if var["type"] == "mr":
            for _ in range(draw(st.integers(0, 2))):
                _add_derived(draw, var)
    names = ["rows_dimension", "columns_dimension"][: len(q["dims"][-2:])]
    tx, meta = {}, {}
    for name, d in zip(names, q["dims"][-2:]):
        t, m = draw(dim_transform_st(sv["vars"][d["var"]], d.get("part")))
        if t:
            tx[name] = t
        meta[name] = m
    sc["transforms"] = tx
    sc["meta"] = meta
    return sc


def expected_for(odim, meta, empty_idxs, drop_subtotals):
    refs = [str(x) for x in _refs(odim)]
    hidden = set(i for i, r in enumerate(refs) if r in set(meta["hidden_refs"]))
    if meta["prune"]:
        hidden |= set(empty_idxs)
    valid_ids = odim.keys if odim.kind in ("cat", "ca_cats") else []
    explicit = meta["explicit"]
    ref_list = _refs(odim)
    if odim.kind in ("mr", "ca_items", "numarr"):
        toks = spec_order.array_tokens(odim.var["items"], explicit, hidden)
    else:
        toks = spec_order.anchored_tokens(
            valid_ids, meta["insertions"], explicit, hidden, drop_subtotals)
    vins = spec_order.valid_insertions(
        meta["insertions"] if odim.kind in ("cat", "ca_cats") else [], valid_ids)
    return toks, vins


def _refs(odim):
    if odim.kind in ("cat", "ca_cats"):
        if odim.var.get("flavour") == "datetime":
            return [c["evalue"] for c in odim.valid]  # as xforms.element_refs spells them
        return list(odim.keys)
    return [it["alias"] for it in odim.var["items"]]


def _hidden(odim, meta, empty_idxs):
    refs = [str(x) for x in _refs(odim)]
    hidden = set(i for i, r in enumerate(refs) if r in set(meta["hidden_refs"]))
    if meta["prune"]:
        hidden |= set(empty_idxs)
    return hidden


def check_dimension(rec, which, odim, meta, empty_idxs, drop_subtotals, got_signed, got_bogus,
                    labels, codes, nontrivial=True, payload_order=None):
    toks, vins = expected_for(odim, meta, empty_idxs, drop_subtotals)
    m = len(vins)
    want = spec_order.signed(toks, m)
    got = [int(x) for x in got_signed]
    rec.compared()
    if got != want:
        rec.violation("%s order %r, specification gives %r (insertions %r, explicit %r, "
                      "hidden %r)" % (which, got, want,
                                      [(i.get("name"), i.get("anchor")) for i in vins],
                                      meta["explicit"], meta["hidden_refs"]), "signed-order")
        return
    if nontrivial:
        anchors = [spec_order.norm_anchor(i["anchor"], odim.keys) for i in vins]
        if any(a != "bottom" for a in anchors):
            rec.nontrivial()
            rec.event("anchored insertion")
        if meta["explicit"] is not None and \
                spec_order.base_sequence(_refs(odim), meta["explicit"]) != list(range(odim.n)):
            rec.nontrivial()
            rec.event("explicit reorder")
    # --- labels / codes aligned with the order
    el_labels = odim.labels()
    el_codes = odim.element_ids()
    numbers = spec_order.insertion_numbers(
        meta["insertions"] if odim.kind in ("cat", "ca_cats") else [], odim.keys
        if odim.kind in ("cat", "ca_cats") else [], meta["from_view"])
    want_labels = [el_labels[t[1]] if t[0] == "el" else vins[t[1]]["name"] for t in toks]
    rec.compared()
    if [str(x) for x in labels] != [str(x) for x in want_labels]:
        rec.violation("%s labels %r do not follow the order: expected %r" % (
            which, list(labels), want_labels), "labels")
    want_codes = [el_codes[t[1]] if t[0] == "el" else numbers[t[1]] for t in toks]
    rec.compared()
    if [str(x) for x in codes] != [str(x) for x in want_codes]:
        rec.violation("%s codes %r, expected %r" % (which, list(codes), want_codes), "codes")
    # --- payload_order (rows only): the anchored PAYLOAD order in ins_N rendering, whatever
    # --- explicit order is in force; judged when the insertions come from a single source
    if payload_order is not None and not meta.get("both"):
        ptoks = (spec_order.array_tokens(odim.var["items"], None, _hidden(odim, meta, empty_idxs))
                 if odim.kind in ("mr", "ca_items", "numarr") else
                 spec_order.anchored_tokens(odim.keys, meta["insertions"], None,
                                            _hidden(odim, meta, empty_idxs), False))
        want_po = [t[1] if t[0] == "el" else "ins_%s" % numbers[t[1]] for t in ptoks]
        rec.compared()
        if [str(x) for x in payload_order] != [str(x) for x in want_po]:
            rec.violation("%s payload_order %r, anchored payload order is %r" % (
                which, list(payload_order), want_po), "payload-order")
    # --- ins_N rendering names the same sequence
    want_bogus = [t[1] if t[0] == "el" else "ins_%s" % numbers[t[1]] for t in toks]
    if got_bogus is not None:
        gb = got_bogus() if callable(got_bogus) else got_bogus
        rec.compared()
        if [str(x) for x in gb] != [str(x) for x in want_bogus]:
            sig = "bogus-ids-view-and-analysis" if meta.get("both") else "bogus-ids"
            rec.violation("%s ins_N rendering %r, signed order %r names %r" % (
                which, list(gb), want, want_bogus), sig)


def _bogus(fn, meta, rec, which):
    """Call the ins_N rendering; a KeyError when view and analysis both define insertions
    is the known 'bogus-ids-view-and-analysis' class."""
    def call():
        try:
            return fn(lib.ORDER_FORMAT.BOGUS_IDS)
        except KeyError as e:
            if meta.get("both"):
                rec.violation("%s ins_N rendering raised KeyError %s" % (which, e),
                              "bogus-ids-view-and-analysis")
                return None
            raise
    return call


def judge(case, rec):
    sv, q = case["survey"], case["query"]
    resp = zz9enc.encode(sv, q)
    part = lib.cube(resp, case["transforms"]).partitions[0]
    lib.warm(part, case.get("warmup"))
    orc = Oracle(sv, q)
    rec.event("shape=" + "x".join(case["shape"]))
    meta = case["meta"]
    if len(apparent_dims(sv, q)) == 1:
        m = meta["rows_dimension"]
        emp = empty_strand_rows(orc)
        gb = _bogus(part.row_order, m, rec, "rows")()
        check_dimension(rec, "strand rows", orc.rows, m, emp, False, part.row_order(), gb,
                        part.row_labels, part.row_codes, payload_order=part.payload_order)
        return
    er, ec = empty_rows(orc), empty_cols(orc)
    mr_, mc_ = meta["rows_dimension"], meta["columns_dimension"]
    drop_r = mc_["prune"] and len(ec) == orc.cols.n
    drop_c = mr_["prune"] and len(er) == orc.rows.n
    gb = _bogus(part.row_order, mr_, rec, "rows")()
    check_dimension(rec, "rows", orc.rows, mr_, er, drop_r, part.row_order(), gb,
                    part.row_labels, part.row_codes, payload_order=part.payload_order)
    gb = _bogus(part.column_order, mc_, rec, "columns")()
    check_dimension(rec, "columns", orc.cols, mc_, ec, drop_c, part.column_order(), gb,
                    part.column_labels, part.column_codes)


# ------------------------------------------------------------------ exhaustive tier
def _enum_cases(shard, nshards, tier):
    """All small row dimensions: n valid (+0/1 missing) categories, <=2 insertions with
    every anchor spelling, every explicit list up to n+1 long over ids+stale, all hidden
    subsets.  Data: one respondent per valid category (no pruning involved)."""
    if tier != "thorough":
        max_n, max_ins, max_len = 2, 1, 2
    else:
        max_n, max_ins, max_len = 3, 2, 4
    k = 0
    for n in range(1, max_n + 1):
        for nmiss in (0, 1):
            ids = [2, 5, 3][:n]
            miss = [9] if nmiss else []
            payloads = [ids + miss] + ([[miss[0]] + ids] if nmiss else [])
            for payload in payloads:
                anchors = ["top", "bottom", "TOP", None, spec_order_stale()] + ids + \
                    [str(i) for i in ids] + miss
                for nins in range(0, max_ins + 1):
                    for anchor_combo in itertools.product(anchors, repeat=nins):
                        for with_ids in ((False,), (True,)) if nins else ((False,),):
                            explicit_opts = [None]
                            pool = ids + [97]
                            for L in range(0, min(max_len, n + 1) + 1):
                                explicit_opts += [list(x) for x in itertools.product(pool, repeat=L)]
                            for explicit in explicit_opts:
                                for hmask in range(0, 2 ** n):
                                    k += 1
                                    if k % nshards != shard:
                                        continue
                                    yield _mk_enum_case(payload, ids, miss, anchor_combo,
                                                        with_ids[0], explicit, hmask)


def spec_order_stale():
    return xforms.STALE


def _mk_enum_case(payload, ids, miss, anchors, with_ids, explicit, hmask):
    cats = [{"id": i, "name": "c%d" % i, "missing": i in miss, "value": None} for i in payload]
    ins = []
    for j, a in enumerate(anchors):
        d = {"function": "subtotal", "name": "S%d" % j, "anchor": a,
             "args": [ids[j % len(ids)], ids[-1]]}
        if with_ids:
            d["id"] = 7 - j
        ins.append(d)
    hidden = [str(ids[b]) for b in range(len(ids)) if hmask >> b & 1]
    t = {"insertions": ins}
    if explicit is not None:
        t["order"] = {"type": "explicit", "element_ids": explicit}
    if hidden:
        t["elements"] = {h: {"hide": True} for h in hidden}
    var = {"type": "cat", "flavour": "cat", "alias": "v0", "name": "V0", "cats": cats,
           "answers": list(ids), "use_order_key": False, "view_insertions": None}
    return {
        "survey": {"n": len(ids), "weights": None, "vars": {"v0": var}},
        "query": {"dims": [{"var": "v0"}], "weighted": False},
        "shape": ["cat"], "transforms": {"rows_dimension": t},
        "meta": {"rows_dimension": {"insertions": ins, "from_view": False,
                                    "explicit": explicit, "hidden_refs": hidden,
                                    "prune": False, "both": False}},
    }


SUBCHECKS = [
    SubCheck("random-slices", case_st(SHAPES), judge, quick=2400, thorough=40000),
    SubCheck("random-strands", case_st([("cat",), ("cat",), ("mr",), ("cat_date",), ("text",)]),
             judge, quick=1200, thorough=20000),
    SubCheck("enumerated-strands", None, judge, kind="enumerate", enumerate_fn=_enum_cases),
    # coverage-guided tier (thorough only): atheris drives the same strategy and judge
    fuzz_subcheck("fuzz-random-slices", "random-slices", quick_runs=0, thorough_runs=12000),
]
