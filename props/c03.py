"""C03 - proportions are count over base, bounded, and sum to one."""
import copy

import numpy as np
from hypothesis import strategies as st

from engine import lib, scen, xforms, zz9enc
from engine.cmp import close
from engine.oracle import Oracle, apparent_dims
from engine.runner import SubCheck
from props.c02 import _all_close, _specs

PROPERTY = "C03"
RULE = (
    "Random surveys (incl. all-zero tables, empty rows/columns, zero weights), all pairings, "
    "random insertions and random hidden elements; row/column/table proportions are compared "
    "cell by cell with (a) public count / public base and (b) respondent-level count / "
    "respondent-level base; NaN iff base is 0; within [0,1]; percentages = 100x; sums over "
    "all base elements (hidden ones taken from an un-hidden reference run) equal 1 where "
    "the base is positive. Non-trivial: a partition with both a zero and a positive base, "
    "or an MR dimension, or a hidden element."
)
BOUNDS = "respondents 0..24, valid categories 1..4, items 1..3, insertions 0..3"
ASSUMPTIONS = [
    "cells of subtotal *differences* are judged by C04, not here (their proportions may be "
    "negative and, on categorical-date dimensions, follow the wave-difference rule)",
    "numpy warnings are not escalated: the property does not state silence",
]

SHAPES = scen.SHAPES_2D * 2 + scen.SHAPES_3D


@st.composite
def case_st(draw, shapes):
    sc = draw(scen.scenario_st(shapes, measure="maybe",
                               weight_kinds=("none", "int", "dyadic", "zeroheavy", "tenths")))
    tx, inforce = draw(xforms.slice_insertions_st(sc, where="either", allow_malformed=False))
    sc["transforms"] = tx
    sc["insertions"] = inforce
    # --- hidden elements (by id) on either dimension
    hide = {}
    sv, q = sc["survey"], sc["query"]
    ndq = len(q["dims"])
    names = ["rows_dimension", "columns_dimension"] if ndq >= 2 else ["rows_dimension"]
    for name, d in zip(names, q["dims"][-2:]):
        var = sv["vars"][d["var"]]
        if var["type"] == "cat" and var.get("flavour") != "datetime" or \
                (var["type"] == "ca" and d.get("part") == "cats"):
            ids = [c["id"] for c in var["cats"] if not c["missing"]]
        elif var["type"] in ("mr", "ca"):
            ids = [it["alias"] for it in var["items"]]
        else:
            continue
        if draw(st.integers(0, 2)) == 0:
            hid = draw(st.lists(st.sampled_from(ids), max_size=2, unique=True))
            if hid:
                hide[name] = hid
    sc["hide"] = hide
    return sc


def _with_hide(tx, hide):
    t = copy.deepcopy(tx)
    for name, ids in hide.items():
        el = t.setdefault(name, {}).setdefault("elements", {})
        for i in ids:
            el[str(i)] = {"hide": True}
    return t


def judge_slice(case, rec):
    sv, q = case["survey"], case["query"]
    resp = zz9enc.encode(sv, q)
    ref = lib.cube(resp, case["transforms"])
    hid = lib.cube(resp, _with_hide(case["transforms"], case["hide"]))
    dims = apparent_dims(sv, q)
    nd = len(dims)
    rec.event("shape=" + "x".join(case["shape"]))
    if case["hide"]:
        rec.nontrivial()
        rec.event("hidden")
    if any(d.kind == "mr" for d in dims[-2:]):
        rec.nontrivial()
    tkeys = dims[0].keys if nd == 3 else [None]
    for part, hpart, tkey in zip(ref.partitions, hid.partitions, tkeys):
        lib.warm(part, case.get("warmup"))
        orc = Oracle(sv, q, table_key=tkey)
        if orc.cols.var.get("flavour") == "cat_date" and sv["n"] % 2 == 0:
            # the smoothed forms (trailing means over the dates) read BEFORE the plain
            # proportions on the partition that is judged; `hpart` reads only the plain ones
            rec.event("smoothed proportions read first")
            for name in ("smoothed_column_proportions", "smoothed_column_percentages"):
                try:
                    getattr(part, name)
                except Exception:  # noqa - availability is not the point here
                    pass
        for p, is_ref in ((part, True), (hpart, False)):
            _check_values(p, orc, case, rec)
        _check_sums(part, hpart, orc, case, rec)


def _check_values(part, orc, case, rec):
    rspecs, cspecs = _specs(part, orc, case)
    nr, nc = len(rspecs), len(cspecs)
    counts = np.asarray(part.counts, dtype=float)
    zero_seen = pos_seen = False
    for pname, bname, fn in (
        ("row_proportions", "row_weighted_bases", orc.row_base),
        ("column_proportions", "column_weighted_bases", orc.col_base),
        ("table_proportions", "table_weighted_bases", orc.table_base),
    ):
        P = np.asarray(getattr(part, pname), dtype=float)
        B = np.asarray(getattr(part, bname), dtype=float)
        pct = np.asarray(getattr(part, pname.replace("proportions", "percentages")), dtype=float)
        if P.shape != (nr, nc):
            rec.violation("%s shape %r != %r" % (pname, P.shape, (nr, nc)), "shape-" + pname)
            continue
        if not _all_close(pct, P * 100):
            rec.violation("%s percentages are not 100 x proportions" % pname, "pct-" + pname)
        for i, r_ in enumerate(rspecs):
            for j, c_ in enumerate(cspecs):
                if orc.is_diff(r_) or orc.is_diff(c_):
                    continue
                ob = fn(r_, c_, True)
                oc = orc.count(r_, c_, True)
                want = None if ob == 0 else oc / ob
                got = P[i, j]
                rec.compared(2)
                if ob == 0:
                    zero_seen = True
                else:
                    pos_seen = True
                if not close(got, want):
                    rec.violation("%s[%d,%d] = %r, respondents give %r / %r" % (
                        pname, i, j, got, oc, ob), pname)
                pub = None if (B[i, j] == 0 or np.isnan(B[i, j])) else counts[i, j] / B[i, j]
                if not close(got, pub):
                    rec.violation("%s[%d,%d] = %r but public count/base = %r / %r" % (
                        pname, i, j, got, counts[i, j], B[i, j]), "pub-" + pname)
                if not np.isnan(got) and not (-1e-12 <= got <= 1 + 1e-12):
                    rec.violation("%s[%d,%d] = %r outside [0, 1]" % (pname, i, j, got),
                                  "range-" + pname)
    if zero_seen and pos_seen:
        rec.nontrivial()
        rec.event("zero+positive base")
    # --- margin proportions
    identity = (
        [int(x) for x in part.row_order()] == list(range(orc.rows.n))
        and [int(x) for x in part.column_order()] == list(range(orc.cols.n))
    )
    for name, mname, opp, axis in (("rows_margin_proportion", "rows_margin", orc.cols, 0),
                                   ("columns_margin_proportion", "columns_margin", orc.rows, 1)):
        # the 2-D fallback (opposing dimension is array-type) re-assembles an already
        # assembled matrix: known finding when the display order is not the identity
        sig = name if (identity or not opp.is_array) else "margin-proportion-2d-double-assembly"
        try:
            got = np.asarray(getattr(part, name), dtype=float)
        except IndexError as e:
            rec.violation("%s raised IndexError: %s" % (name, e), sig)
            continue
        margin = np.asarray(getattr(part, mname), dtype=float)
        tb = np.asarray(part.table_weighted_bases, dtype=float)
        with np.errstate(divide="ignore", invalid="ignore"):
            if opp.is_array:
                want = margin / tb if tb.size else margin
            else:
                if (axis == 0 and nc == 0) or (axis == 1 and nr == 0):
                    continue
                t1 = tb[:, 0] if axis == 0 else tb[0, :]
                want = margin / t1
            want = np.where(np.isinf(want), np.nan, want)
        specs = rspecs if axis == 0 else cspecs
        ok = got.shape == want.shape
        if ok:
            g2, w2 = got.copy(), want.copy()
            # difference vectors: margin (own-direction base) is NaN -> NaN either way
            for k, s_ in enumerate(specs):
                if orc.is_diff(s_):
                    if g2.ndim == 1:
                        g2[k] = w2[k] = np.nan
                    elif axis == 0:
                        g2[k, :] = w2[k, :] = np.nan
                    else:
                        g2[:, k] = w2[:, k] = np.nan
            ok = _all_close(g2, w2)
        rec.compared()
        if not ok:
            rec.violation("%s = %r but margin / table base = %r" % (
                name, got.tolist(), want.tolist()), sig)


def _check_sums(ref, hid, orc, case, rec):
    """Proportions over *all* base elements of a categorical dimension add up to 1."""
    rs_ref, cs_ref = _specs(ref, orc, case)
    rs_hid, cs_hid = _specs(hid, orc, case)
    refP = {n: np.asarray(getattr(ref, n), dtype=float)
            for n in ("row_proportions", "column_proportions", "table_proportions")}
    hidP = {n: np.asarray(getattr(hid, n), dtype=float)
            for n in ("row_proportions", "column_proportions", "table_proportions")}

    def lookup(specs):
        return {s: k for k, s in enumerate(map(_freeze, specs))}

    rpos, cpos = lookup(rs_ref), lookup(cs_ref)
    hr, hc = lookup(rs_hid), lookup(cs_hid)
    base_rows = [s for s in map(_freeze, rs_ref) if s[0] == "el"]
    base_cols = [s for s in map(_freeze, cs_ref) if s[0] == "el"]

    def val(name, rs, cs):
        # visible in the hidden run -> take it from there, else from the reference run
        if rs in hr and cs in hc:
            return hidP[name][hr[rs], hc[cs]]
        return refP[name][rpos[rs], cpos[cs]]

    if not orc.cols.is_array and base_cols:
        for rs in map(_freeze, rs_ref):
            if rs[0] != "el" and orc.is_diff(rs):
                continue
            b = orc.row_base(rs, base_cols[0], True)
            tot = sum(val("row_proportions", rs, cs) for cs in base_cols)
            rec.compared()
            if b > 0 and not close(tot, 1.0):
                rec.violation("row proportions of row %r over all base columns sum to %r" % (
                    rs, tot), "rowsum")
    if not orc.rows.is_array and base_rows:
        for cs in map(_freeze, cs_ref):
            if cs[0] != "el" and orc.is_diff(cs):
                continue
            b = orc.col_base(base_rows[0], cs, True)
            tot = sum(val("column_proportions", rs, cs) for rs in base_rows)
            rec.compared()
            if b > 0 and not close(tot, 1.0):
                rec.violation("column proportions of column %r over all base rows sum to %r"
                              % (cs, tot), "colsum")
    if not orc.rows.is_array and not orc.cols.is_array and base_rows and base_cols:
        b = orc.table_base(base_rows[0], base_cols[0], True)
        tot = sum(val("table_proportions", rs, cs) for rs in base_rows for cs in base_cols)
        rec.compared()
        if b > 0 and not close(tot, 1.0):
            rec.violation("table proportions over all base cells sum to %r" % tot, "tablesum")


def _freeze(s):
    return s if s[0] == "el" else ("sub", s[1], tuple(s[2]), tuple(s[3]))


def judge_strand(case, rec):
    sv, q = case["survey"], case["query"]
    resp = zz9enc.encode(sv, q)
    part = lib.cube(resp, _with_hide(case["transforms"], case["hide"])).partitions[0]
    lib.warm(part, case.get("warmup"))
    orc = Oracle(sv, q)
    rec.event("shape=" + "x".join(case["shape"]))
    rspecs = lib.display_specs(part.row_order(), part.row_labels, orc.rows,
                               case["insertions"]["rows"])
    P = np.asarray(part.table_proportions, dtype=float)
    pct = np.asarray(part.table_percentages, dtype=float)
    if not _all_close(pct, P * 100):
        rec.violation("strand percentages are not 100 x proportions", "pct1")
    zero = pos = False
    for i, s in enumerate(rspecs):
        if orc.is_diff(s):
            continue
        b = orc.base1(s if orc.rows.is_array else ("el", None), True)
        c = orc.count1(s, True)
        want = None if b == 0 else c / b
        zero |= b == 0
        pos |= b > 0
        rec.compared()
        if not close(P[i], want):
            rec.violation("strand table_proportions[%d] = %r, respondents give %r / %r" % (
                i, P[i], c, b), "prop1")
        if not np.isnan(P[i]) and not (-1e-12 <= P[i] <= 1 + 1e-12):
            rec.violation("strand table_proportions[%d] = %r outside [0,1]" % (i, P[i]),
                          "range1")
    if orc.rows.kind == "mr" or case["hide"] or sv["weights"]:
        rec.nontrivial()
    if not orc.rows.is_array:
        # all base elements (hidden ones from the oracle) sum to one
        b = orc.base1(("el", None), True)
        if b > 0:
            tot = sum(orc.count1(("el", k), True) for k in orc.rows.keys) / b
            vis = sum(P[i] for i, s in enumerate(rspecs) if s[0] == "el")
            hidden = [k for k in orc.rows.keys if ("el", k) not in rspecs]
            rest = sum(orc.count1(("el", k), True) for k in hidden) / b
            rec.compared()
            if not close(vis + rest, 1.0) or not close(tot, 1.0):
                rec.violation("strand proportions sum to %r (+%r hidden)" % (vis, rest), "sum1")


SUBCHECKS = [
    SubCheck("slice-proportions", case_st(SHAPES), judge_slice, quick=1600, thorough=30000),
    SubCheck("strand-proportions", case_st([s for s in scen.SHAPES_1D if s != ("na",)]),
             judge_strand, quick=800, thorough=12000),
]
