"""C15 - share of sum divides by the base-cell total of the row, column or table."""
import numpy as np
from hypothesis import strategies as st

from engine import lib, scen, xforms, zz9enc
from engine.cmp import close
from engine.oracle import Oracle, apparent_dims
from engine.runner import SubCheck
from props.c02 import _specs

PROPERTY = "C15"
RULE = (
    "Random surveys with a numeric variable (many missing values -> NaN sums) summed over "
    "CAT x CAT, MR x CAT, CAT x MR and NUM_ARRAY x CAT tables and strands, with random "
    "subtotal/difference insertions on rows and/or columns; each cell's row / column / total "
    "share is compared with its sum divided by the total of its row / column / table over "
    "BASE rows and columns only (sums recomputed from respondents); base-cell shares add up "
    "to 1. Non-trivial: a row insertion present and two base rows with different totals, or "
    "a column insertion, or a NaN sum."
)
BOUNDS = "respondents 0..24, valid categories 1..4, items 1..3, insertions 0..3 per dimension"
ASSUMPTIONS = [
    "cells of subtotal differences are not judged: the statement does not define their share",
    "an empty cell's sum is reported as unavailable (NaN) by the encoder, like zz9; inserted "
    "cells one of whose addend cells is NaN are not judged (their sum is encoder-dependent)",
]

SHAPES = [("cat", "cat")] * 4 + [("mr", "cat"), ("cat", "mr"), ("na", "cat"), ("na", "cat"),
                                  ("cat_date", "cat"), ("na", "mr"),
                                  # 3-D: the shares of every slice of one cube
                                  ("cat", "cat", "cat"), ("mr", "cat", "cat")]


@st.composite
def case_st(draw, shapes):
    sc = draw(scen.scenario_st(shapes, measure="always", stats=["sum"], min_valid=1,
                               max_valid=4, weight_kinds=scen.WEIGHTS_INEXACT))
    tx, inforce = draw(xforms.slice_insertions_st(sc, where="either", max_ins=3,
                                                  allow_malformed=False))
    sc["transforms"] = tx
    sc["insertions"] = inforce
    return sc


def _sum_of(orc, members, rspec):
    pairs = []
    for r in members:
        x = orc.xvalue(r, rspec if orc.mvar["type"] == "numarr" else None)
        if x is not None:
            pairs.append((orc.w(r, True), x))
    return zz9enc.numeric_stat("sum", pairs)


def _cell_sum(orc, rs, cs):
    """Signed sum of the response's base-cell sums; 'skip' when an addend cell is NaN."""
    def parts(spec, dim):
        if spec[0] == "el":
            return [(1, spec[1])]
        return [(1, k) for k in spec[2]] + [(-1, k) for k in spec[3]]
    tot = 0
    for sr, rk in parts(rs, orc.rows):
        for sc_, ck in parts(cs, orc.cols):
            v = _sum_of(orc, orc.cell_members(("el", rk), ("el", ck)), ("el", rk))
            if v is None:
                return "nan" if (rs[0] == "el" and cs[0] == "el") else "skip"
            tot += sr * sc_ * v
    return tot


def judge_slice(case, rec):
    """Every slice of the cube is judged against its own respondents (3-D: one slice per
    table element)."""
    sv, q = case["survey"], case["query"]
    parts = lib.cube(zz9enc.encode(sv, q), case["transforms"]).partitions
    rec.event("shape=" + "x".join(case["shape"]))
    dims = apparent_dims(sv, q)
    tkeys = dims[0].keys if len(dims) == 3 and dims[0].kind != "numarr" else [None]
    if len(tkeys) > 1:
        rec.event("3-D: several slices")
    for part, tkey in zip(parts, tkeys):
        _judge_slice_part(case, rec, part, Oracle(sv, q, table_key=tkey))


def _judge_slice_part(case, rec, part, orc):
    sv, q = case["survey"], case["query"]
    lib.warm(part, case.get("warmup"))
    rspecs, cspecs = _specs(part, orc, case)
    nr, nc = len(rspecs), len(cspecs)
    S = {}
    for i, r_ in enumerate(rspecs):
        for j, c_ in enumerate(cspecs):
            S[i, j] = _cell_sum(orc, r_, c_)
    base_r = [i for i, s in enumerate(rspecs) if s[0] == "el"]
    base_c = [j for j, s in enumerate(cspecs) if s[0] == "el"]
    if any(v == "nan" for v in S.values()):
        rec.nontrivial()
        rec.event("NaN sum")

    def num(v):
        return 0 if v in ("nan", "skip") else v

    row_tot = {i: sum(num(S[i, j]) for j in base_c) for i in range(nr)}
    col_tot = {j: sum(num(S[i, j]) for i in base_r) for j in range(nc)}
    tab_tot = sum(num(S[i, j]) for i in base_r for j in base_c)
    if case["insertions"]["cols"] or (
            case["insertions"]["rows"] and len(set(row_tot[i] for i in base_r)) > 1):
        rec.nontrivial()
    got = {n: np.asarray(getattr(part, n), dtype=float)
           for n in ("row_share_sum", "column_share_sum", "total_share_sum")}
    for i, r_ in enumerate(rspecs):
        # a row total over base columns is only known when no base cell of it was skipped
        for j, c_ in enumerate(cspecs):
            s = S[i, j]
            if s == "skip":
                continue
            if orc.is_diff(r_) or orc.is_diff(c_):
                continue  # the statement does not define the share of a difference
            diff = False
            block = ("inserted-row" if r_[0] == "sub" else "base-row") + "/" + \
                    ("inserted-col" if c_[0] == "sub" else "base-col")
            for name, tot, dep in (
                ("row_share_sum", row_tot[i], [(i, jj) for jj in base_c]),
                ("column_share_sum", col_tot[j], [(ii, j) for ii in base_r]),
                ("total_share_sum", tab_tot, []),
            ):
                if any(S[k] == "skip" for k in dep):
                    continue
                if diff or s == "nan":
                    want = None
                elif tot != 0 and abs(tot) < 1e-9:
                    # sums of positive and negative values that cancel: whether the total is
                    # 0 or 1e-17 is the order of addition (weights that are not exactly
                    # representable); the share is +-inf or 1e16 accordingly
                    continue
                elif tot == 0:
                    want = None if s == 0 else ("inf" if s > 0 else "-inf")
                else:
                    want = s / tot
                g = got[name][i, j]
                rec.compared()
                ok = (np.isinf(g) and (g > 0) == (want == "inf")) if isinstance(want, str) \
                    else close(g, want)
                if not ok:
                    rec.violation(
                        "%s[%d,%d] (%s) = %r; sum %r over base-cell total %r gives %r" % (
                            name, i, j, block, g, s, tot, want),
                        "%s:%s" % (name, block))
    # --- defining relation on the PUBLIC sums of the same run (encoder-independent): the
    # --- total of a displayed row / column is the NaN-skipping total of its sums over base
    # --- columns / rows - for base vectors and inserted subtotals alike
    SM = np.asarray(part.sums, dtype=float)
    with np.errstate(divide="ignore", invalid="ignore"):
        rt = np.nansum(SM[:, base_c], axis=1) if base_c else np.zeros(nr)
        ct = np.nansum(SM[base_r, :], axis=0) if base_r else np.zeros(nc)
        tt = np.nansum(SM[np.ix_(base_r, base_c)]) if base_r and base_c else 0.0
        want_rel = {"row_share_sum": SM / rt[:, None], "column_share_sum": SM / ct[None, :],
                    "total_share_sum": SM / tt}
    for i, r_ in enumerate(rspecs):
        for j, c_ in enumerate(cspecs):
            if orc.is_diff(r_) or orc.is_diff(c_):
                continue
            for name in want_rel:
                w_ = want_rel[name][i, j]
                g = got[name][i, j]
                rec.compared()
                if np.isinf(w_) and np.isinf(g):
                    continue
                if not close(g, w_):
                    block = ("inserted-row" if r_[0] == "sub" else "base-row") + "/" + \
                        ("inserted-col" if c_[0] == "sub" else "base-col")
                    rec.violation(
                        "%s[%d,%d] (%s) = %r but its public sum %r over the NaN-skipping "
                        "base-cell total gives %r" % (name, i, j, block, g, SM[i, j], w_),
                        "relation-%s:%s" % (name, block))
    # --- base-cell shares add up to one along their direction
    for i in base_r:
        vals = [got["row_share_sum"][i, j] for j in base_c]
        if vals and not any(np.isnan(v) or np.isinf(v) for v in vals) and row_tot[i] != 0:
            rec.compared()
            if not close(sum(vals), 1.0):
                rec.violation("row shares of base row %d sum to %r" % (i, sum(vals)), "rowsum")
    for j in base_c:
        vals = [got["column_share_sum"][i, j] for i in base_r]
        if vals and not any(np.isnan(v) or np.isinf(v) for v in vals) and col_tot[j] != 0:
            rec.compared()
            if not close(sum(vals), 1.0):
                rec.violation("column shares of base column %d sum to %r" % (j, sum(vals)),
                              "colsum")


def judge_strand(case, rec):
    sv, q = case["survey"], case["query"]
    part = lib.cube(zz9enc.encode(sv, q), case["transforms"]).partitions[0]
    lib.warm(part, case.get("warmup"))
    orc = Oracle(sv, q)
    rec.event("shape=" + "x".join(case["shape"]))
    rspecs = lib.display_specs(part.row_order(), part.row_labels, orc.rows,
                               case["insertions"]["rows"])
    vals = {}
    for i, s in enumerate(rspecs):
        if s[0] == "el":
            vals[i] = _sum_of(orc, orc.members1(s), s)
        else:
            tot, bad = 0, False
            for sign, keys in ((1, s[2]), (-1, s[3])):
                for k in keys:
                    v = _sum_of(orc, orc.members1(("el", k)), ("el", k))
                    if v is None:
                        bad = True
                    else:
                        tot += sign * v
            vals[i] = "skip" if bad else tot
    base = [i for i, s in enumerate(rspecs) if s[0] == "el"]
    total = sum(vals[i] for i in base if vals[i] is not None)
    got = np.asarray(part.share_sum, dtype=float)
    if case["insertions"]["rows"]:
        rec.nontrivial()
    if any(vals[i] is None for i in base):
        rec.nontrivial()
    for i, s in enumerate(rspecs):
        v = vals[i]
        if v == "skip":
            continue
        if orc.is_diff(s):
            continue  # the statement does not define the share of a difference
        if v is None:
            want = None
        elif abs(total) < 1e-9:
            continue
        else:
            want = v / total
        rec.compared()
        if not close(got[i], want):
            rec.violation("strand share_sum[%d] (%s) = %r, expected %r / %r" % (
                i, "inserted" if s[0] == "sub" else "base", got[i], v, total),
                "share_sum1:" + ("inserted" if s[0] == "sub" else "base"))


SUBCHECKS = [
    SubCheck("slice-shares", case_st(SHAPES), judge_slice, quick=3200, thorough=40000),
    SubCheck("strand-shares", case_st([("cat",), ("mr",), ("na",), ("cat_date",)]),
             judge_strand, quick=1200, thorough=16000),
]
