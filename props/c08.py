"""C08 - sort-by-value ordering is monotone in the requested measure."""
import copy

import numpy as np
from hypothesis import strategies as st

from engine import lib, scen, spec_order, xforms, zz9enc
from engine.oracle import Oracle, apparent_dims, empty_cols, empty_rows, empty_strand_rows
from engine.runner import SubCheck, fuzz_subcheck
from props.c07 import _refs

PROPERTY = "C08"
RULE = (
    "Random surveys (ties, NaN cells, zero bases) with insertions; one dimension gets a "
    "sort-by-value order (opposing element / opposing insertion with every sortable measure "
    "keyword, marginal with every marginal keyword, label, strand measure keywords; both "
    "directions; fixed top/bottom lists with repeats and stale ids; hide / prune). The sorted "
    "run supplies ONLY the order; the values come from a reference run (same data and "
    "insertions, no ordering/hiding) through the PUBLIC measure named by the keyword. "
    "Required: fixed-top in listed order, body monotone (non-strict) in the direction with "
    "NaN-valued elements last in payload order, fixed-bottom; subtotals one contiguous group "
    "(first when descending, last when ascending) sorted the same way; unresolvable key => "
    "anchored payload order. Non-trivial: >= 3 non-fixed visible elements with >= 2 distinct "
    "finite values, or a fallback."
)
POP_SIG = "population-sort-ranks-differences-by-unmasked-values"
BOUNDS = "respondents 0..30, valid categories 1..5, items 1..4, insertions 0..3"
ASSUMPTIONS = [
    "population keywords: filter fraction is 1 and the population positive (the keyword maps to "
    "a monotone transform of the public estimates only then)",
    "opposing_insertion against an array-type opposing dimension addresses its items: rows "
    "sorted by that column; on columns the library does not resolve it (fallback asserted)",
    "population keywords with a difference (public estimate NaN) as sort key or inside the "
    "subtotal group: asserted like any NaN-valued vector; the library ranks them by the "
    "unmasked proportion - recorded known finding, signature " + POP_SIG,
]

MEASURE_PROP = {
    "col_base_unweighted": "column_unweighted_bases", "col_base_weighted": "column_weighted_bases",
    "col_index": "column_index", "col_percent": "column_percentages",
    "col_percent_moe": "column_proportions_moe", "col_share_sum": "column_share_sum",
    "col_std_dev": "column_std_dev", "col_std_err": "column_std_err", "mean": "means",
    "population": "population_counts", "population_moe": "population_counts_moe",
    "p_value": "pvals", "row_base_unweighted": "row_unweighted_bases",
    "row_base_weighted": "row_weighted_bases", "row_percent": "row_percentages",
    "row_percent_moe": "row_proportions_moe", "row_share_sum": "row_share_sum",
    "row_std_dev": "row_std_dev", "row_std_err": "row_std_err", "stddev": "stddev",
    "sum": "sums", "table_base_unweighted": "table_unweighted_bases",
    "table_base_weighted": "table_weighted_bases", "table_percent": "table_percentages",
    "table_percent_moe": "table_proportions_moe", "table_std_dev": "table_std_dev",
    "table_std_err": "table_std_err", "total_share_sum": "total_share_sum",
    "count_unweighted": "unweighted_counts", "valid_count_unweighted": "unweighted_counts",
    "count_weighted": "counts", "valid_count_weighted": "counts", "z_score": "zscores",
}
MARGINAL_PROP = {
    "unweighted_base": "rows_base", "weighted_base": "rows_margin",
    "table_proportion": "rows_margin_proportion", "scale_mean": "rows_scale_mean",
    "scale_mean_stddev": "rows_scale_mean_stddev", "scale_mean_stderr": "rows_scale_mean_stderr",
    "scale_median": "rows_scale_median",
}
STRAND_PROP = {
    "base_unweighted": "unweighted_bases", "base_weighted": "weighted_bases",
    "count_unweighted": "unweighted_counts", "count_weighted": "counts", "mean": "means",
    "percent": "table_percentages", "percent_moe": "table_proportion_moes",
    "percent_stddev": "table_proportion_stddevs", "percent_stderr": "table_proportion_stderrs",
    "population": "population_counts", "population_moe": "population_counts_moe",
    "share_sum": "share_sum", "sum": "sums", "stddev": "stddev",
    "valid_count_unweighted": "unweighted_counts", "valid_count_weighted": "counts",
}

SHAPES = [("cat", "cat")] * 4 + [("cat", "mr"), ("mr", "cat"), ("mr", "mr"), ("cai", "cac"),
                                  ("cac", "cai"), ("cat_date", "cat"), ("cat", "text"),
                                  ("na", "cat"),
                                  # 3-D: one slice per table element, each sorted by its own values
                                  ("cat", "cat", "cat"), ("mr", "cat", "mr"), ("cat", "mr", "cat")]


@st.composite
def case_st(draw, shapes, strand=False):
    sc = draw(scen.scenario_st(shapes, measure="maybe", max_n=30, max_valid=5, max_items=4,
                               stats=["mean", "sum", "stddev"], skew=draw(st.booleans()),
                               numeric="some"))
    sv, q = sc["survey"], sc["query"]
    is_na = bool(q.get("measure")) and sv["vars"][q["measure"]["var"]]["type"] == "numarr"
    if strand:
        dims = [None] if is_na else q["dims"][-1:]
        names = ["rows_dimension"]
    else:
        dims = ([None] + q["dims"][-1:]) if is_na else q["dims"][-2:]
        names = ["rows_dimension", "columns_dimension"]
    info = []
    base = {}
    for name, d in zip(names, dims):
        var = sv["vars"][d["var"]] if d else sv["vars"]["na"]
        part = (d or {}).get("part")
        refs = xforms.element_refs(var, part)
        ins = []
        if d is not None and xforms.can_insert(var, part) and draw(st.booleans()):
            v, m = xforms.dim_ids(var, part)
            ins = draw(xforms.insertions_st(v, m, max_ins=3, allow_malformed=False,
                                            with_id=True))
            base.setdefault(name, {})["insertions"] = ins
        info.append({"name": name, "refs": refs, "ins": ins, "var": var, "part": part})
    k = 0 if strand else draw(st.integers(0, 1))
    own = info[k]
    opp = info[1 - k] if not strand else None
    kinds = ["label", "univariate_measure", "univariate_measure"] if strand else (
        ["label", "opposing_element", "opposing_element", "opposing_insertion", "marginal",
         "marginal"] if k == 0 else
        ["label", "opposing_element", "opposing_element", "opposing_insertion"])
    opp_ins_ids = []
    if opp is not None:
        opp_ins_ids = [i["id"] for i in opp["ins"]]
        if opp["var"]["type"] in ("mr", "numarr") or \
                (opp["var"]["type"] == "ca" and opp["part"] == "items"):
            # array opposing dimension: no subtotals; "insertion" ids address its (possibly
            # zz9-derived) items - implemented for the rows sort only
            opp_ins_ids = list(opp["refs"])
    order = draw(xforms.order_st(own["refs"], opp["refs"] if opp else [], opp_ins_ids,
                                 "strand" if strand else ("rows" if k == 0 else "cols"),
                                 kinds=kinds,
                                 measures=xforms.NUMARR_MEASURES if is_na else None))
    full = copy.deepcopy(base)
    t = full.setdefault(own["name"], {})
    t["order"] = order
    elements, prune = draw(xforms.hide_prune_st(own["refs"], p_hide=3, p_prune=3))
    if elements:
        t["elements"] = elements
    if prune:
        t["prune"] = True
    sc["base"], sc["full"] = base, full
    sc["axis"] = k
    sc["order"] = order
    sc["meta"] = {"insertions": own["ins"], "hidden_refs": list(elements), "prune": prune}
    sc["population"] = draw(st.sampled_from([None, 1000]))
    return sc


def _to_float(v):
    try:
        return float(v)
    except (TypeError, ValueError):
        return v


def _is_nan(v):
    try:
        return bool(np.isnan(v))
    except TypeError:
        return False


def reference_values(case, R, orc_dims, strand):
    """{signed idx: value} of the own-dimension vectors from the reference run, or None
    when the sort key cannot be resolved (=> anchored payload order expected)."""
    order = case["order"]
    typ = order["type"]
    axis = case["axis"]
    own_order = [int(x) for x in (R.row_order() if axis == 0 else R.column_order())]
    if typ == "label":
        labels = R.row_labels if axis == 0 else R.column_labels
        return {s: str(labels[p]) for p, s in enumerate(own_order)}
    if typ == "univariate_measure":
        prop = STRAND_PROP.get(order.get("measure"))
        if prop is None:
            return None
        try:
            vec = np.asarray(getattr(R, prop), dtype=float)
        except ValueError:
            return None
        return {s: vec[p] for p, s in enumerate(own_order)}
    if typ == "marginal":
        prop = MARGINAL_PROP.get(order.get("marginal"))
        if prop is None:
            return None
        try:
            vec = getattr(R, prop)
        except ValueError:
            return None
        if vec is None or np.asarray(vec).ndim != 1:
            return None
        vec = np.asarray(vec, dtype=float)
        return {s: vec[p] for p, s in enumerate(own_order)}
    # --- opposing element / insertion: a vector of the matrix measure
    prop = MEASURE_PROP.get(order.get("measure"))
    if prop is None:
        return None
    try:
        M = np.asarray(getattr(R, prop), dtype=float)
    except ValueError:
        return None
    opp_dim = orc_dims[1 - axis]
    opp_order = [int(x) for x in (R.column_order() if axis == 0 else R.row_order())]
    if typ == "opposing_element":
        refs = _refs(opp_dim)
        if order.get("element_id") not in refs:
            return None
        key = refs.index(order["element_id"])
    elif opp_dim.kind not in ("cat", "ca_cats"):
        # an item of an opposing ARRAY dimension addressed as an insertion: rows are sorted
        # by that item's column; on columns the key is not resolved (payload order; the
        # asymmetry is C10's known finding)
        refs = _refs(opp_dim)
        if axis != 0 or order.get("insertion_id") not in refs:
            return None
        key = refs.index(order["insertion_id"])
    else:
        opp_ins = case["base"].get(["rows_dimension", "columns_dimension"][1 - axis], {}) \
            .get("insertions", [])
        vins = spec_order.valid_insertions(
            opp_ins, opp_dim.keys if opp_dim.kind in ("cat", "ca_cats") else [])
        ids = [i["id"] for i in vins]
        if order.get("insertion_id") not in ids:
            return None
        key = ids.index(order["insertion_id"]) - len(vins)
        kw = (vins[ids.index(order["insertion_id"])].get("kwargs") or {})
        if str(order.get("measure", "")).startswith("population") and \
                set(kw.get("negative") or []) & set(opp_dim.keys):
            # the public population estimates of a DIFFERENCE are NaN: every element is
            # NaN-valued and the property asks for payload order (see POP_SIG)
            case["_opposing_difference"] = True
    if key not in opp_order:
        return None
    q = opp_order.index(key)
    vec = M[:, q] if axis == 0 else M[q, :]
    return {s: vec[p] for p, s in enumerate(own_order)}


def judge(case, rec):
    """Every partition of the cube is judged (a 3-D response yields one slice per table
    element, all sorted by the SAME transform but each by its own values)."""
    sv, q = case["survey"], case["query"]
    resp = zz9enc.encode(sv, q)
    pop = case["population"]
    Rs = lib.cube(resp, case["base"], population=pop).partitions
    Ts = lib.cube(resp, case["full"], population=pop).partitions
    dims = apparent_dims(sv, q)
    tkeys = dims[0].keys if len(dims) == 3 else [None]
    if len(dims) == 3:
        rec.event("3-D: %d slices" % len(Ts))
        if len(Ts) > 1:
            rec.nontrivial()
    for R, T, tkey in zip(Rs, Ts, tkeys):
        _judge_part(case, rec, R, T, Oracle(sv, q, table_key=tkey), dims[-2:])


def _judge_part(case, rec, R, T, orc, dims):
    sv, q = case["survey"], case["query"]
    lib.warm(T, case.get("warmup"))
    strand = len(dims) == 1
    axis = case["axis"]
    order = case["order"]
    rec.event("shape=" + "x".join(case["shape"]))
    rec.event("type=%s" % order["type"])
    odims = [orc.rows] if strand else [orc.rows, orc.cols]
    own = odims[axis]
    got = [int(x) for x in (T.row_order() if axis == 0 else T.column_order())]
    rec.compared()
    if len(set(got)) != len(got):
        rec.violation("order lists a vector twice: %r" % got, "duplicate")
        return
    case.pop("_opposing_difference", None)
    values = reference_values(case, R, odims, strand)
    opposing_difference = bool(case.pop("_opposing_difference", False))
    if opposing_difference:
        rec.event("population sort by an opposing difference")
    meta = case["meta"]
    refs = _refs(own)
    can = own.kind in ("cat", "ca_cats")
    vins = spec_order.valid_insertions(meta["insertions"] if can else [], own.keys if can else [])
    m = len(vins)
    if values is None:
        # --- unresolvable key: anchored payload order
        rec.nontrivial()
        rec.event("fallback")
        if strand:
            empties = empty_strand_rows(orc)
            drop = False
        else:
            empties = empty_rows(orc) if axis == 0 else empty_cols(orc)
            drop = False
        hidden = set(i for i, r in enumerate(refs) if str(r) in set(meta["hidden_refs"]))
        if meta["prune"]:
            hidden |= set(empties)
        toks = spec_order.anchored_tokens(
            own.keys if can else refs, meta["insertions"] if can else [], None, hidden, drop)
        want = spec_order.signed(toks, m)
        rec.compared()
        if got != want:
            rec.violation("sort key cannot be resolved (%r) but the order %r is not the "
                          "anchored payload order %r" % (order, got, want), "fallback-order")
        return
    descending = order.get("direction", "descending") != "ascending"
    fixed = order.get("fixed") or {}
    ref_idx = {r: i for i, r in enumerate(refs)}
    shown = set(got)

    def fixed_idxs(ids, exclude=()):
        out = []
        for r in ids or []:
            if r in ref_idx and ref_idx[r] not in out and ref_idx[r] not in exclude:
                out.append(ref_idx[r])
        return out

    top = fixed_idxs(fixed.get("top"))
    bottom = fixed_idxs(fixed.get("bottom"), exclude=top)
    top_v = [i for i in top if i in shown]
    bottom_v = [i for i in bottom if i in shown]
    subs = [s for s in got if s < 0]
    elems = [s for s in got if s >= 0]
    # --- subtotals: one contiguous group, first when descending, last when ascending
    rec.compared()
    if subs:
        block = got[:len(subs)] if descending else got[len(got) - len(subs):]
        if sorted(block) != sorted(subs):
            rec.violation("subtotals %r are not one group %s in %r" % (
                subs, "at the top" if descending else "at the bottom", got), "subtotal-group")
            return
    # --- base elements: fixed top, body, fixed bottom
    want_head = top_v
    want_tail = bottom_v
    body = elems[len(want_head):len(elems) - len(want_tail)] if len(elems) >= len(want_head) + \
        len(want_tail) else None
    rec.compared()
    if body is None or elems[:len(want_head)] != want_head or \
            (want_tail and elems[len(elems) - len(want_tail):] != want_tail):
        rec.violation("fixed elements are not bracketing the body in listed order: order %r, "
                      "fixed top %r bottom %r" % (elems, want_head, want_tail), "fixed")
        return
    pop_kw = str(order.get("measure", "")).startswith("population")
    own_diffs = set(k - m for k, ins in enumerate(vins)
                    if set((ins.get("kwargs") or {}).get("negative") or []) & set(own.keys))
    for name, seq in (("body", body), ("subtotals", subs)):
        vals = [values[s] for s in seq]
        nan_flags = [_is_nan(v) for v in vals]
        finite = [(s, v) for s, v, f in zip(seq, vals, nan_flags) if not f]
        nans = [s for s, f in zip(seq, nan_flags) if f]
        rec.compared()
        if nans:
            # NaN-valued vectors last, in payload order
            if seq[len(seq) - len(nans):] != nans or nans != sorted(nans):
                sig = "nan-placement"
                if pop_kw and (opposing_difference or
                               (name == "subtotals" and set(nans) <= own_diffs)):
                    # population estimates of differences are public NaN, but the sort
                    # ranks them by the unmasked proportion
                    sig = POP_SIG
                rec.violation("%s: NaN-valued vectors %r are not last in payload order in %r "
                              "(values %r)" % (name, nans, seq, vals), sig)
                continue
        fv = [v for _, v in finite]
        for a, b in zip(fv, fv[1:]):
            bad = (a < b) if descending else (a > b)
            if bad:
                rec.violation("%s not monotone %s by %r: order %r has values %r" % (
                    name, "descending" if descending else "ascending",
                    {k: order[k] for k in order if k != "fixed"}, seq, vals), "monotone")
                break
        if name == "body" and len(seq) >= 3 and len(set(fv)) >= 2:
            rec.nontrivial()
            rec.event("body>=3 with distinct values")


SUBCHECKS = [
    SubCheck("slices", case_st(SHAPES), judge, quick=8000, thorough=100000),
    SubCheck("strands", case_st([("cat",), ("mr",), ("mr",), ("mr",), ("cat_date",), ("na",)],
                                strand=True), judge, quick=8000, thorough=100000),
    fuzz_subcheck("fuzz-slices", "slices", quick_runs=0, thorough_runs=8000),
]
