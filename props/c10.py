"""C10 - transposing the response transposes the result."""
import copy

import numpy as np
from hypothesis import strategies as st

from engine import lib, observe, scen, xforms, zz9enc
from engine.observe import Raised
from engine.oracle import apparent_dims
from engine.runner import SubCheck
from props.c05 import _arr_eq, _eq

PROPERTY = "C10"
RULE = (
    "Random surveys and pairings A x B; the same survey is RE-ENCODED with the two dimensions "
    "exchanged (not by transposing a tensor) and the transforms mirrored (insertions incl. "
    "differences, hide, prune, explicit / label / opposing-element / opposing-insertion "
    "orders with mirrored measure keywords); every row-direction output of one must equal "
    "the column-direction counterpart of the other, direction-free outputs must be each "
    "other's transposes. Non-trivial: non-square shape, or an insertion present."
)
BOUNDS = "respondents 0..24, valid categories 1..4, items 1..3, insertions 0..3"
ASSUMPTIONS = [
    "numeric arrays cannot be columns (library limitation), so they are not transposed",
    "when BOTH dimensions are categorical-date the population rule does not say which date "
    "wins; population outputs are not compared for that pairing",
    "column index, smoothing and pairwise column tests have no row-direction counterpart",
    "weights are exactly representable here: A x B and B x A add the same numbers in another "
    "order, and a sort by value (p-value ...) must not be decided by the last bit",
]

SHAPES = [s for s in scen.SHAPES_2D] + [("cat_date", "cat_date"), ("cat", "cat")]

DIRECTION_FREE = [
    "counts", "weighted_counts", "unweighted_counts", "table_proportions", "table_percentages",
    "table_proportion_variances", "table_std_dev", "table_std_err", "table_proportions_moe",
    "table_unweighted_bases", "table_weighted_bases", "zscores", "pvals", "pvalues",
    "population_counts", "population_counts_moe", "population_proportions",
    "population_std_err", "total_share_sum", "means", "sums", "stddev", "medians",
]
POPULATION = {"population_counts", "population_counts_moe", "population_proportions",
              "population_std_err"}
ROW_COL_MATRIX = [
    ("row_proportions", "column_proportions"), ("row_percentages", "column_percentages"),
    ("row_proportion_variances", "column_proportion_variances"),
    ("row_std_dev", "column_std_dev"), ("row_std_err", "column_std_err"),
    ("row_proportions_moe", "column_proportions_moe"), ("row_share_sum", "column_share_sum"),
    ("row_unweighted_bases", "column_unweighted_bases"),
    ("row_weighted_bases", "column_weighted_bases"),
]
ROW_COL_VECTOR = [
    ("rows_base", "columns_base"), ("rows_margin", "columns_margin"),
    ("rows_margin_proportion", "columns_margin_proportion"),
    ("rows_scale_mean", "columns_scale_mean"),
    ("rows_scale_mean_stddev", "columns_scale_mean_stddev"),
    ("rows_scale_mean_stderr", "columns_scale_mean_stderr"),
    ("rows_scale_median", "columns_scale_median"),
    ("rows_scale_mean_margin", "columns_scale_mean_margin"),
    ("rows_scale_median_margin", "columns_scale_median_margin"),
    ("row_labels", "column_labels"), ("row_codes", "column_codes"),
    ("row_aliases", "column_aliases"), ("inserted_row_idxs", "inserted_column_idxs"),
    ("derived_row_idxs", "derived_column_idxs"), ("diff_row_idxs", "diff_column_idxs"),
    ("rows_dimension_name", "columns_dimension_name"),
    ("rows_dimension_description", "columns_dimension_description"),
]
SAME = ["table_base_range", "table_margin_range", "population_fraction"]

MIRROR_MEASURE = {}
for _a in ("base_unweighted", "base_weighted", "percent", "percent_moe", "share_sum", "std_dev",
           "std_err"):
    MIRROR_MEASURE["row_" + _a] = "col_" + _a
    MIRROR_MEASURE["col_" + _a] = "row_" + _a
MEASURES = [m for m in xforms.SORTABLE_MEASURES if m != "col_index"]


def mirror_transforms(tx):
    out = {}
    for k, v in (tx or {}).items():
        k2 = {"rows_dimension": "columns_dimension", "columns_dimension": "rows_dimension"}.get(k, k)
        v2 = copy.deepcopy(v)
        o = v2.get("order") if isinstance(v2, dict) else None
        if o and "measure" in o:
            o["measure"] = MIRROR_MEASURE.get(o["measure"], o["measure"])
        out[k2] = v2
    return out


@st.composite
def case_st(draw):
    sc = draw(scen.scenario_st(SHAPES, measure="maybe", stats=["mean", "sum", "stddev"],
                               weight_kinds=("none", "int", "dyadic", "zeroheavy")))
    sv, q = sc["survey"], sc["query"]
    from props.c07 import _add_derived
    for var in sv["vars"].values():
        if var["type"] == "mr" and draw(st.integers(0, 2)) == 0:
            _add_derived(draw, var)
    info = []
    tx = {}
    for name, d in zip(["rows_dimension", "columns_dimension"], q["dims"]):
        var, part = sv["vars"][d["var"]], d.get("part")
        refs = xforms.element_refs(var, part)
        ins = []
        if xforms.can_insert(var, part) and draw(st.booleans()):
            v, m = xforms.dim_ids(var, part)
            ins = draw(xforms.insertions_st(v, m, max_ins=3, allow_malformed=False,
                                            with_id=True))
            tx.setdefault(name, {})["insertions"] = ins
        info.append((name, refs, ins))
    sc["row_only_sort"] = False
    for k, (name, refs, ins) in enumerate(info):
        opp = info[1 - k]
        if draw(st.integers(0, 2)) == 0:
            order = draw(xforms.order_st(
                refs, opp[1], [i["id"] for i in opp[2]], "cols", measures=MEASURES))
            ovar = sv["vars"][q["dims"][1 - k]["var"]]
            if draw(st.integers(0, 4)) == 0:
                # sorts that exist for ROWS only in the library: by a marginal, and by an
                # item of an opposing array dimension addressed as an "insertion" (how the
                # user-facing language treats zz9-derived items)
                if ovar["type"] == "mr" and draw(st.booleans()):
                    order = {"type": "opposing_insertion",
                             "insertion_id": draw(st.sampled_from(list(opp[1]))),
                             "measure": draw(st.sampled_from(MEASURES))}
                else:
                    order = {"type": "marginal",
                             "marginal": draw(st.sampled_from(["unweighted_base", "weighted_base",
                                                               "table_proportion"]))}
                sc["row_only_sort"] = True
            if order and order.get("type") == "opposing_insertion" and \
                    ovar["type"] != "cat" and order.get("insertion_id") in list(opp[1]):
                sc["row_only_sort"] = True   # names an item of the opposing array dimension
            if order:
                tx.setdefault(name, {})["order"] = order
        elements, prune = draw(xforms.hide_prune_st(refs))
        if elements:
            tx.setdefault(name, {})["elements"] = elements
        if prune:
            tx.setdefault(name, {})["prune"] = True
    sc["transforms"] = tx
    sc["population"] = draw(st.sampled_from([None, 900]))
    sc["mask_size"] = draw(st.sampled_from([0, 3]))
    return sc


def judge(case, rec):
    sv, q = case["survey"], case["query"]
    qT = copy.deepcopy(q)
    qT["dims"] = list(reversed(q["dims"]))
    A = lib.cube(zz9enc.encode(sv, q), case["transforms"], case["population"],
                 case["mask_size"]).partitions[0]
    lib.warm(A, case.get("warmup"))
    B = lib.cube(zz9enc.encode(sv, qT), mirror_transforms(case["transforms"]),
                 case["population"], case["mask_size"]).partitions[0]
    dims = apparent_dims(sv, q)
    rec.event("shape=" + "x".join(case["shape"]))
    both_dates = all(d.var.get("flavour") == "cat_date" for d in dims)
    if both_dates and any(
            str(((case["transforms"].get(n) or {}).get("order") or {}).get("measure", ""))
            .startswith("population") for n in ("rows_dimension", "columns_dimension")):
        # sorting by a population estimate when both dimensions are categorical-date: the
        # estimate itself is direction-dependent there (documented exclusion), so is the order
        rec.event("both-date population sort skipped")
        return
    if case.get("row_only_sort"):
        # the mirrored transform must give the mirrored order; the library implements these
        # two sorts for rows only and silently keeps payload order on columns
        rec.event("row-only sort mirrored")
        rec.compared(2)
        if [int(x) for x in A.row_order()] != [int(x) for x in B.column_order()] or \
                [int(x) for x in A.column_order()] != [int(x) for x in B.row_order()]:
            rec.violation("rows / columns order %r / %r but the transposed run with the "
                          "mirrored transforms has columns / rows order %r / %r" % (
                              list(A.row_order()), list(A.column_order()),
                              list(B.column_order()), list(B.row_order())),
                          "column-side-sort-not-implemented")
        return
    sA, sB = observe.snapshot(A), observe.snapshot(B)
    if tuple(A.shape) != tuple(reversed(B.shape)):
        rec.violation("shape %r vs transposed run %r" % (A.shape, B.shape), "shape")
        return
    if A.shape[0] != A.shape[1] or any(
            (case["transforms"].get(n) or {}).get("insertions")
            for n in ("rows_dimension", "columns_dimension")):
        rec.nontrivial()
    if 0 in A.shape:
        rec.event("empty partition")
        names = [("row_labels", "column_labels"), ("row_codes", "column_codes")]
        for r, c in names:
            for x, y in ((sA[r], sB[c]), (sA[c], sB[r])):
                if not _pair_ok(x, y, False):
                    rec.violation("labels/codes of an empty partition differ", "labels-empty")
        return

    def cmp(na, nb, transpose, tag):
        a, b = sA[na], sB[nb]
        rec.compared()
        if not _pair_ok(a, b, transpose) and not (_is_root(na) and _roots_ok(a, b, transpose)):
            sig = "pair-%s" % na
            if na in ("rows_margin_proportion", "columns_margin_proportion") and \
                    (dims[-1].is_array or dims[-2].is_array):
                sig = "margin-proportion-2d-double-assembly"
            if na.endswith("scale_mean_margin") or na.endswith("scale_median_margin"):
                sig = "scale-margin-from-displayed-vectors"
            rec.violation("%s: %s = %s but transposed run's %s = %s" % (
                tag, na, _fmt(a), nb, _fmt(b)), sig)

    for n in DIRECTION_FREE:
        if both_dates and n in POPULATION:
            continue
        cmp(n, n, True, "direction-free")
    for r, c in ROW_COL_MATRIX:
        cmp(r, c, True, "row/column twin")
        cmp(c, r, True, "row/column twin")
    for r, c in ROW_COL_VECTOR:
        cmp(r, c, None, "row/column twin")
        cmp(c, r, None, "row/column twin")
    for n in SAME:
        cmp(n, n, False, "scalar")
    # --- table base / margin: scalar, per-vector or per-cell
    for n in ("table_base", "table_margin"):
        a, b = sA[n], sB[n]
        rec.compared()
        aa, bb = np.asarray(a, dtype=float), np.asarray(b, dtype=float)
        ok = _arr_eq(aa, bb.T) if aa.ndim == 2 else _arr_eq(aa, bb)
        if not ok:
            rec.violation("%s %s vs transposed run %s" % (n, _fmt(a), _fmt(b)), "pair-" + n)
    # --- orders
    rec.compared(2)
    if [int(x) for x in A.row_order()] != [int(x) for x in B.column_order()] or \
            [int(x) for x in A.column_order()] != [int(x) for x in B.row_order()]:
        rec.violation("row/column order %r / %r vs transposed run's column/row order %r / %r"
                      % (list(A.row_order()), list(A.column_order()), list(B.column_order()),
                         list(B.row_order())), "order")
    ma, mb = sA["min_base_size_mask"], sB["min_base_size_mask"]
    if not isinstance(ma, Raised) and not isinstance(mb, Raised):
        for x, y in (("row_mask", "column_mask"), ("column_mask", "row_mask"),
                     ("table_mask", "table_mask")):
            rec.compared()
            if not _arr_eq(np.asarray(getattr(ma, x)), np.asarray(getattr(mb, y)).T):
                rec.violation("min_base_size_mask.%s vs transposed %s" % (x, y), "pair-mask")


def _is_root(name):
    """square roots of a variance (std-dev / std-err / MoE families)"""
    return any(t in name for t in ("std_dev", "std_err", "_moe", "stddev", "stderr"))


def _roots_ok(a, b, transpose):
    """With weights that are not exactly representable a variance of 0 comes out as +-1e-16
    depending on the order of summation - which transposition changes - and its root as 0 or
    1e-8: tiny roots are compared in the variance domain."""
    try:
        aa, bb = np.asarray(a, dtype=float), np.asarray(b, dtype=float)
    except (TypeError, ValueError):
        return False
    if transpose is None:
        transpose = aa.ndim == 2
    if transpose and bb.ndim == 2:
        bb = bb.T
    if aa.shape != bb.shape:
        return False
    for x, y in zip(aa.ravel().tolist(), bb.ravel().tolist()):
        if _eq(x, y):
            continue
        if np.isnan(x) or np.isnan(y) or x < 0 or y < 0 or abs(x * x - y * y) > 1e-12:
            return False
    return True


def _pair_ok(a, b, transpose):
    if isinstance(a, Raised) or isinstance(b, Raised):
        return _eq(a, b)
    if a is None or b is None:
        return a is None and b is None
    if isinstance(a, (str, bytes, float, int)) and not isinstance(a, np.ndarray):
        return _eq(a, b)
    aa = np.asarray(a)
    bb = np.asarray(b)
    if transpose is None:
        transpose = aa.ndim == 2
    if aa.dtype == object or bb.dtype == object or aa.dtype.kind in "US":
        aa = np.asarray(a, dtype=object)
        bb = np.asarray(b, dtype=object)
    if transpose and bb.ndim == 2:
        bb = bb.T
    if aa.dtype == object:
        return aa.shape == bb.shape and all(
            _eq(x, y) for x, y in zip(aa.ravel().tolist(), bb.ravel().tolist()))
    return _arr_eq(aa, bb)


def _fmt(v):
    try:
        s = repr(np.asarray(v).tolist())
    except Exception:  # noqa
        s = repr(v)
    return s if len(s) < 200 else s[:200] + "..."


SUBCHECKS = [
    SubCheck("transpose", case_st(), judge, quick=3200, thorough=50000),
]
